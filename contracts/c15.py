"""C15 - encoding is pure: deterministic, history-free, thread-safe, idempotent.

Deductive / static part (complete over the package source, re-read every run):
  write scan      no function of segno/*.py rebinds a module level name (global / nonlocal),
                  stores through or calls a mutating method on a module level object, or is
                  wrapped by a state-carrying decorator (caches); module initialisation excepted
  determinism     no use of time / random / id / hash / os.environ / set iteration outside
                  the three documented timestamp sites of the EPS / PDF / LaTeX writers
  frame           the real encoder entry points are executed by pyvc on representative concrete
                  and symbolic inputs with a mutation hook: every mutated object was allocated
                  inside the call (never an argument, a module table or an earlier result);
                  mutation-site coverage is measured against the syntactic list of sites
Determinism + frame => history freedom; no shared mutable state is written => the result does
not depend on the thread schedule (assumption: CPython reads of unmodified objects are safe).
Idempotence: the _encode glue obligations (C15._encode.*) make the symbol a function of (segments, version, level used, mask used) only;
the re-encoding call reaches the stages with the same values (argument in DESIGN.md 10.6); exercised bounded as well.
Bounded (labelled): snapshots of all module tables / arguments / earlier results around native
calls (incl. the serialisers), shuffled call histories, 16 concurrent threads, and re-encoding
with the automatically chosen (version, level, mask) and boosting disabled.
"""
import ast
import io
import os
import random
from pyvc.runner import Task
from pyvc import extract

MOD = 'contracts.c15'
LEVEL = 'other'
TRUSTED_BASE = ['Python scoping rules as implemented in the scan (a name is local iff bound in the function)', 'pyvc mutation hook (interpreted paths only)',
                'CPython: concurrent reads of objects nobody mutates are safe']
ASSUMPTIONS = ['thread interleavings are NOT explored: thread safety is derived from the absence of writes to shared state (scan + frame), a bounded 16-thread run stands in',
               'serialisers are checked by bounded snapshots only (they run natively)']
RULE = 'static: one obligation per function / mutation site / nondeterminism source of the package; bounded: native calls with table snapshots, shuffled histories, threads'

MUTATORS = {'append', 'extend', 'insert', 'pop', 'remove', 'clear', 'sort', 'reverse', 'update', 'setdefault', 'popitem', 'add', 'discard',
            '__setitem__', '__delitem__', 'appendleft', 'extendleft'}
PURE_DECORATORS = {'property', 'staticmethod', 'classmethod', 'contextmanager', 'colorful', 'wraps'}
MODULES = ('segno', 'segno.encoder', 'segno.consts', 'segno.utils', 'segno.writers', 'segno.helpers', 'segno.cli')


def tasks(tier, seed):
    ts = [Task('write_scan', MOD, 'task_write_scan', (), backend='ground', fuc=['segno/*.py (all functions)']),
          Task('determinism_scan', MOD, 'task_determinism_scan', (), backend='ground', fuc=['segno/*.py (all functions)']),
          Task('frame_encoder', MOD, 'task_frame_encoder', (), fuc=['segno.encoder.encode', 'segno.encoder.encode_sequence', 'segno.utils.matrix_iter',
                                                                     'segno.utils.matrix_iter_verbose', 'segno.utils.matrix_to_lines'], weight=20, backend='ground')]
    for k in range(8 if tier == 'quick' else 64):
        ts.append(Task('bounded_purity[%d]' % k, MOD, 'task_bounded_purity', (seed, k), backend='bounded', fuc=['segno.make', 'segno.make_sequence', 'segno.QRCode.save'], weight=30))
    ts.append(Task('bounded_native_battery', MOD, 'task_bounded_native', (seed,), backend='bounded', fuc=['segno.make'], weight=60))
    # idempotence lemma: the glue contract of _encode pins every stage argument to (segments, version, level actually used, mask actually used);
    # encoding again with the reported version / level / mask and boosting disabled therefore calls every stage with identical arguments
    # (the mask stage with the reported mask as request, whose contract - C06 - returns the same candidate), and the stages are deterministic (scan)
    from . import glue
    ts += glue.glue_tasks('C15')
    return ts


# ------------------------------------------------------------------ static scans
def _functions(tree):
    out = []

    def walk(node, qual):
        for ch in ast.iter_child_nodes(node):
            if isinstance(ch, (ast.FunctionDef, ast.AsyncFunctionDef, ast.Lambda)):
                nm = getattr(ch, 'name', '<lambda>')
                out.append((qual + nm, ch))
                walk(ch, qual + nm + '.')
            elif isinstance(ch, ast.ClassDef):
                walk(ch, qual + ch.name + '.')
            else:
                walk(ch, qual)
    walk(tree, '')
    return out


def _local_names(fn):
    names = set()
    a = fn.args
    for p in a.posonlyargs + a.args + a.kwonlyargs:
        names.add(p.arg)
    if a.vararg:
        names.add(a.vararg.arg)
    if a.kwarg:
        names.add(a.kwarg.arg)
    body = fn.body if isinstance(fn.body, list) else [fn.body]
    for n in ast.walk(ast.Module(body=body, type_ignores=[])):
        if isinstance(n, ast.Name) and isinstance(n.ctx, (ast.Store, ast.Del)):
            names.add(n.id)
        elif isinstance(n, (ast.FunctionDef, ast.ClassDef)):
            names.add(n.name)
        elif isinstance(n, ast.arg):
            names.add(n.arg)
        elif isinstance(n, (ast.Import, ast.ImportFrom)):
            for al in n.names:
                names.add((al.asname or al.name).split('.')[0])
        elif isinstance(n, ast.ExceptHandler) and n.name:
            names.add(n.name)
    return names


def _base_name(node):
    while isinstance(node, (ast.Subscript, ast.Attribute)):
        node = node.value
    return node.id if isinstance(node, ast.Name) else None


def task_write_scan(I):
    n_fun = 0
    for modname in MODULES:
        mi = extract.get_module(modname)
        module_names = set(mi.module.__dict__)
        funcs = _functions(mi.tree)
        # class level attributes initialised with a mutable value
        class_mutables = {}
        for cn in ast.walk(mi.tree):
            if isinstance(cn, ast.ClassDef):
                for st_ in cn.body:
                    if isinstance(st_, ast.Assign) and isinstance(st_.value, (ast.Dict, ast.List, ast.Set)) or \
                            isinstance(st_, ast.Assign) and isinstance(st_.value, ast.Call) and isinstance(st_.value.func, ast.Name) and st_.value.func.id in ('dict', 'list', 'set', 'bytearray'):
                        for t_ in st_.targets:
                            if isinstance(t_, ast.Name):
                                class_mutables.setdefault(cn.name, set()).add(t_.id)
        # enclosing function locals are also not shared state: collect per function chain
        parents = {}
        for q, fn in funcs:
            parents[q] = fn
        for q, fn in funcs:
            n_fun += 1
            local = set(_local_names(fn))
            # names of enclosing functions' locals (closures) count as local to the call
            parts = q.split('.')
            for i in range(1, len(parts)):
                enc = parents.get('.'.join(parts[:i]))
                if enc is not None:
                    local |= _local_names(enc)
            body = fn.body if isinstance(fn.body, list) else [fn.body]
            probs = []
            for n in ast.walk(ast.Module(body=body, type_ignores=[])):
                if isinstance(n, (ast.Global, ast.Nonlocal)):
                    probs.append('line %d: %s %s' % (n.lineno, type(n).__name__.lower(), ', '.join(n.names)))
                targets = []
                if isinstance(n, ast.Assign):
                    targets = n.targets
                elif isinstance(n, (ast.AugAssign, ast.AnnAssign)):
                    targets = [n.target]
                elif isinstance(n, ast.Delete):
                    targets = n.targets
                for t in targets:
                    for tt in (t.elts if isinstance(t, (ast.Tuple, ast.List)) else [t]):
                        if isinstance(tt, (ast.Subscript, ast.Attribute)):
                            b = _base_name(tt)
                            if b is not None and b not in local and b in module_names and b != 'self':
                                probs.append('line %d: store through module level name %r' % (n.lineno, b))
                if isinstance(n, ast.Call) and isinstance(n.func, ast.Attribute) and n.func.attr in MUTATORS:
                    b = _base_name(n.func.value)
                    if b is not None and b not in local and b in module_names:
                        probs.append('line %d: %s() on module level name %r' % (n.lineno, n.func.attr, b))
            # hidden state: a mutable default argument lives as long as the function and is shared by all calls
            a_ = fn.args
            for dflt in list(a_.defaults) + [d_ for d_ in a_.kw_defaults if d_ is not None]:
                if isinstance(dflt, (ast.Dict, ast.List, ast.Set, ast.ListComp, ast.DictComp, ast.SetComp)) or \
                        (isinstance(dflt, ast.Call) and isinstance(dflt.func, ast.Name) and dflt.func.id in ('dict', 'list', 'set', 'bytearray', 'defaultdict', 'OrderedDict', 'deque')):
                    probs.append('line %d: mutable default argument (state shared between calls)' % dflt.lineno)
            # state kept on the class: a store through / mutator call on an attribute that the class body initialises with a mutable value
            cls_mut = class_mutables.get(q.rsplit('.', 1)[0], set()) if '.' in q else set()
            for n in ast.walk(ast.Module(body=body, type_ignores=[])):
                tgt = None
                if isinstance(n, (ast.Assign, ast.AugAssign, ast.Delete)):
                    for t in (n.targets if hasattr(n, 'targets') else [n.target]):
                        if isinstance(t, ast.Subscript):
                            tgt = t.value
                elif isinstance(n, ast.Call) and isinstance(n.func, ast.Attribute) and n.func.attr in MUTATORS:
                    tgt = n.func.value
                if isinstance(tgt, ast.Attribute) and isinstance(tgt.value, ast.Name) and tgt.value.id in ('self', 'cls') and tgt.attr in cls_mut:
                    probs.append('line %d: mutation of the class level container %r' % (n.lineno, tgt.attr))
            for d in getattr(fn, 'decorator_list', []):
                dn = d.func if isinstance(d, ast.Call) else d
                name = dn.attr if isinstance(dn, ast.Attribute) else getattr(dn, 'id', None)
                if name not in PURE_DECORATORS and not (isinstance(dn, ast.Attribute) and dn.attr in ('setter', 'getter')):
                    probs.append('line %d: decorator %r may keep state between calls' % (d.lineno, name))
            # a SUFFICIENT condition of purity: a function that writes shared state may still be pure (a correct memo); reported as a violation
            # only if the native purity battery observes a difference, else as undecided
            I.ground('C15.write_scan.function_writes_no_module_level_state', not probs, witness=dict(module=modname, function=q, problems=probs[:3]),
                     replay=dict(fn='replay_purity'), kind='sufficient')
    I.ground('C15.write_scan.functions_scanned', n_fun > 100, witness=n_fun)
    I.samples = [dict(scan='write scan', functions=n_fun, modules=list(MODULES))]


NONDET_CALLS = {'time', 'random', 'uuid', 'datetime', 'secrets'}
ALLOWED_TIME_FUNCS = {'write_eps', 'write_pdf', 'write_tex'}        # creation timestamps, excluded by the property


def task_determinism_scan(I):
    n = 0
    for modname in MODULES:
        mi = extract.get_module(modname)
        for q, fn in _functions(mi.tree):
            n += 1
            body = fn.body if isinstance(fn.body, list) else [fn.body]
            probs = []
            for node in ast.walk(ast.Module(body=body, type_ignores=[])):
                if isinstance(node, ast.Call):
                    f = node.func
                    base = _base_name(f) if isinstance(f, ast.Attribute) else (f.id if isinstance(f, ast.Name) else None)
                    if base in NONDET_CALLS and q.split('.')[0] not in ALLOWED_TIME_FUNCS and not (isinstance(f, ast.Attribute) and f.attr == 'sleep'):
                        probs.append('line %d: call into %s' % (node.lineno, base))
                    if isinstance(f, ast.Name) and f.id in ('id', 'hash', 'input'):
                        probs.append('line %d: %s()' % (node.lineno, f.id))
                if isinstance(node, ast.Attribute) and node.attr == 'environ':
                    probs.append('line %d: os.environ' % node.lineno)
                if isinstance(node, (ast.For, ast.comprehension)):
                    it = node.iter
                    if isinstance(it, ast.Call) and isinstance(it.func, ast.Name) and it.func.id in ('set', 'frozenset'):
                        probs.append('line %d: iteration over a set' % getattr(node, 'lineno', it.lineno))
            I.ground('C15.determinism_scan.no_nondeterministic_primitive', not probs, witness=dict(module=modname, function=q, problems=probs[:3]),
                     replay=dict(fn='replay_purity'), kind='sufficient')
    I.samples = [dict(scan='determinism scan', functions=n)]


# ------------------------------------------------------------------ frame obligations on interpreted paths
# the lookup tables of the library on the pinned tree (module level containers): a call that modifies one of them violates the property outright;
# a write to any OTHER module level container (e.g. a cache a change introduces) only breaks the sufficient condition "nothing shared is written"
LIBRARY_TABLE_MODULES = ('segno.consts.', 'segno.writers._ALPHA_COMMONS', 'segno.writers._NAME2RGB', 'segno.writers._VALID_SERIALIZERS', 'segno.helpers._MECARD_ESCAPE',
                         'segno.helpers._VCARD_ESCAPE', 'segno.cli._EXT_TO_KW_MAPPING', 'argument')


def _frame_kind(hits):
    return 'post' if any(h.startswith(LIBRARY_TABLE_MODULES) for h in hits) else 'sufficient'


def _protected_objects():
    """mutable containers reachable from the module dictionaries of the package"""
    prot = {}
    for modname in MODULES:
        mod = extract.get_module(modname).module
        for name, val in mod.__dict__.items():
            if name.startswith('__'):
                continue
            stack = [(modname + '.' + name, val)]
            depth = 0
            while stack and depth < 20000:
                depth += 1
                label, v = stack.pop()
                if isinstance(v, (list, dict, set, bytearray)):
                    prot[id(v)] = label
                if isinstance(v, dict):
                    stack.extend((label + '[%r]' % (k,), x) for k, x in list(v.items())[:300])
                elif isinstance(v, (list, tuple)) and len(v) < 2000:
                    stack.extend((label + '[%d]' % i, x) for i, x in enumerate(v))
    return prot


def task_frame_encoder(I):
    import segno
    prot = _protected_objects()
    hits = []
    sites = set()

    def hook(obj):
        lab = prot.get(id(obj))
        if lab is not None:
            hits.append(lab)
    I.mutation_hook = hook
    f = I.get_function('segno.encoder', 'encode')
    g = I.get_function('segno.encoder', 'encode_sequence')
    cases = [('12345', {}), ('HELLO WORLD', dict(error='h')), ('Hello', dict(micro=False, mask=3)), (b'\x93\x5f\xe4\xaa', dict(mode='kanji')),
             ('äöü', dict(eci=True, encoding='utf-8')), (['AB', '12', 'ab'], dict(version=3)), (123456789, dict(version='M4')), ('x' * 200, dict(error='q'))]
    n_mut = [0]
    orig_note = I.note_mutation

    def counting_note(obj):
        n_mut[0] += 1
        orig_note(obj)
    I.note_mutation = counting_note
    for content, kw in cases:
        arg_ids = {}
        if isinstance(content, list):
            arg_ids[id(content)] = 'argument content'
        del hits[:]
        before = repr(content)
        res = {}
        I.explore(lambda I: I.call_function(f, (content,), dict(kw)), lambda I, k, v: res.update(kind=k, val=v))
        I.ground('C15.frame.encode_mutates_only_objects_allocated_in_the_call', not hits and repr(content) == before,
                 witness=dict(call='encode(%r, **%r)' % (content, kw), touched=hits[:3]), replay=dict(fn='replay_purity'),
                 kind='post' if repr(content) != before else _frame_kind(hits))
        I.ground('C15.frame.encode_ran', res.get('kind') == 'return', witness=repr(res.get('val'))[:100])
        # interpreter soundness cross-check: the interpreted real source and CPython agree on the whole pipeline
        if res.get('kind') == 'return':
            from segno import encoder as _enc
            nat = _enc.encode(content, **kw)
            got = res['val']
            same = ([list(getattr(r, 'items', r)) for r in got[0]] == [list(r) for r in nat.matrix]
                    and tuple(got[1:4]) == (nat.version, nat.error, nat.mask))
            if not same:
                raise RuntimeError('pyvc interpreter disagrees with CPython on encode(%r, **%r)' % (content, kw))
            I.ground('C15.crosscheck.interpreter_agrees_with_cpython_on_encode', True, kind='cover')
    for content, kw in (('A' * 120, dict(version=1)), ('1234567890' * 5, dict(symbol_count=4)), ('Hello', dict(symbol_count=1))):
        del hits[:]
        res = {}
        I.explore(lambda I: I.call_function(g, (content,), dict(kw)), lambda I, k, v: res.update(kind=k, val=v))
        I.ground('C15.frame.encode_sequence_mutates_only_objects_allocated_in_the_call', not hits,
                 witness=dict(call='encode_sequence(%r, **%r)' % (content[:20], kw), touched=hits[:3]), replay=dict(fn='replay_purity'), kind=_frame_kind(hits))
    # iteration / line helpers on an existing symbol: the symbol is not changed
    q = segno.make('frame', micro=False)
    from pyvc.values import VBytearray
    m = tuple(VBytearray(list(r)) for r in q.matrix)
    snap = [list(r.items) for r in m]
    prot.update({id(r): 'argument matrix row' for r in m})
    for fname, args in (('matrix_iter', (m, (21, 21), 2, 1)), ('matrix_iter_verbose', (m, (21, 21), 1, 0)), ('matrix_to_lines', (m, 0, 0))):
        del hits[:]
        h = I.get_function('segno.utils', fname)
        res = {}
        I.explore(lambda I: I.iterate(I.call_function(h, args, {})), lambda I, k, v: res.update(kind=k, val=v))
        I.ground('C15.frame.%s_does_not_modify_the_symbol' % fname, not hits and [list(r.items) for r in m] == snap and res.get('kind') == 'return',
                 witness=dict(function=fname, touched=hits[:3]), replay=dict(fn='replay_purity'))
    I.ground('C15.frame.mutation_events_observed', n_mut[0] > 1000, witness=n_mut[0])
    I.samples = [dict(frame='interpreted calls', mutation_events=n_mut[0], protected_objects=len(prot))]
    I.mutation_hook = None


# ------------------------------------------------------------------ bounded: snapshots, histories, threads, idempotence
def _table_snapshot():
    import copy
    snap = {}
    for modname in MODULES:
        mod = extract.get_module(modname).module
        for name, val in mod.__dict__.items():
            if name.startswith('__') or callable(val) or isinstance(val, type(os)):
                continue
            if not (modname + '.' + name).startswith(LIBRARY_TABLE_MODULES):
                continue        # only the library's own tables: a container introduced by a change (e.g. a cache) is the business of the write scan
            try:
                snap[modname + '.' + name] = copy.deepcopy(val)
            except Exception:
                snap[modname + '.' + name] = repr(val)
    return snap


def task_bounded_purity(I, seed, k):
    import threading
    import segno
    from .c01 import gen_content
    rnd = random.Random(seed * 17 + k)
    rp = dict(fn='replay_purity')
    calls = []
    for t in range(18):
        kind = ('numeric', 'alphanumeric', 'latin', 'utf8', 'kanji', 'bytes', 'int')[(k + t) % 7]
        content = gen_content(rnd, kind) or '0'
        kw = {}
        if rnd.random() < 0.3:
            kw['error'] = rnd.choice('LMQH')
        if rnd.random() < 0.3:
            kw['micro'] = False
        if rnd.random() < 0.2:
            kw['version'] = rnd.choice((5, 10, 27))
        calls.append((content, kw))

    def make(c, kw):
        try:
            q = segno.make(c, **kw)
            return (q.designator, q.mask, tuple(bytes(r) for r in q.matrix))
        except ValueError as ex:
            return ('ValueError', str(ex))
    snap0 = _table_snapshot()
    ref = [make(c, kw) for c, kw in calls]
    # determinism + history freedom: reversed and shuffled order, with serialisations in between
    order = list(range(len(calls)))
    for variant in ('reversed', 'shuffled'):
        order = order[::-1] if variant == 'reversed' else rnd.sample(order, len(order))
        ok = True
        for i in order:
            got = make(*calls[i])
            ok = ok and got == ref[i]
            if got[0] != 'ValueError' and rnd.random() < 0.5:
                q = segno.make(calls[i][0], **calls[i][1])
                before = tuple(bytes(r) for r in q.matrix)
                kind = rnd.choice(('png', 'svg', 'ppm', 'pdf', 'txt', 'eps', 'xpm'))
                out = io.StringIO() if kind in ('txt', 'eps', 'xpm') else io.BytesIO()
                q.save(out, kind=kind, border=2)
                list(q.matrix_iter(verbose=True))
                I.ground('C15.bounded.serialising_does_not_change_the_symbol', tuple(bytes(r) for r in q.matrix) == before, witness=dict(kind=kind), kind='bounded', replay=rp)
        I.ground('C15.bounded.same_result_in_%s_history' % variant, ok, witness=dict(variant=variant), kind='bounded', replay=rp)
    I.ground('C15.bounded.module_tables_unchanged', _table_snapshot() == snap0, witness='tables differ', kind='bounded', replay=rp)
    # arguments are not modified
    lst = ['AB', '12', 'ab']
    segno.make(lst)
    I.ground('C15.bounded.argument_list_unchanged', lst == ['AB', '12', 'ab'], witness=repr(lst), kind='bounded', replay=rp)
    # threads
    results = {}

    def worker(tid):
        out = []
        for i in range(len(calls)):
            j = (i + tid) % len(calls)
            out.append((j, make(*calls[j])))
        results[tid] = out
    import sys
    old = sys.getswitchinterval()
    sys.setswitchinterval(1e-5)
    try:
        th = [threading.Thread(target=worker, args=(t,)) for t in range(16)]
        for t in th:
            t.start()
        for t in th:
            t.join()
    finally:
        sys.setswitchinterval(old)
    ok = all(got == ref[j] for out in results.values() for j, got in out) and len(results) == 16
    I.ground('C15.bounded.same_result_under_16_concurrent_threads', ok, witness='a concurrent result differs from the sequential reference', kind='bounded', replay=rp)
    # idempotence
    for (c, kw), r in zip(calls, ref):
        if r[0] == 'ValueError':
            continue
        q = segno.make(c, **kw)
        q2 = segno.make(c, version=q.version, error=q.error, mask=q.mask, boost_error=False, **{a: b for a, b in kw.items() if a not in ('version', 'error')})
        I.ground('C15.bounded.reencoding_with_chosen_version_level_mask_reproduces_the_matrix', q2.matrix == q.matrix and q2.designator == q.designator,
                 witness=dict(call='make(%r, **%r)' % (c if len(repr(c)) < 60 else repr(c)[:60], kw), designator=q.designator, again=q2.designator), kind='bounded', replay=rp)
    # bool / int content must not share cached results (history dependence through equal-hashing arguments)
    a, b = make(1, {}), make(True, {})
    I.ground('C15.bounded.equal_hashing_arguments_do_not_share_results', a == make('1', {}) and b == make('True', {}), witness=dict(a=a[0], b=b[0]), kind='bounded', replay=rp)
    I.samples = [dict(bounded='purity', calls=len(calls), threads=16)]


def task_bounded_native(I, seed):
    """BOUNDED (labelled): native battery in fresh interpreters - (1) ~60 calls that differ in exactly the dimensions a cache key could forget
    (encoding / eci with equal byte lengths, equal lengths in different modes, level / version / mask / micro flag, equal-hashing arguments): every call after
    every other call (1200 sampled ordered pairs) gives the result of a fresh interpreter; (2) 16 threads encoding one symbol size at once in a cold interpreter;
    (3) systematic schedules: thread B encodes a complete symbol while thread A is suspended at the entry of its k-th encoder function, for every k, cold state each"""
    import json
    import os
    from pyvc import runner
    rc, out, err = runner.run_native([os.path.join(runner.VERIF, 'purity_native.py'), str(seed)], timeout=1500)
    try:
        res = json.loads(out.strip().split('\n')[-1])
    except Exception:
        raise RuntimeError('purity_native.py failed: rc=%r %s' % (rc, err[-600:]))
    rp = dict(fn='replay_purity')
    I.ground('C15.bounded.every_call_after_every_other_call_gives_the_result_of_a_fresh_interpreter_and_cold_threads_agree', not res['history'],
             witness=res['history'][:2], kind='bounded', replay=rp)
    I.ground('C15.bounded.thread_B_running_while_thread_A_is_suspended_at_any_encoder_function_entry_changes_nothing', not res['schedules'],
             witness=res['schedules'][:2], kind='bounded', replay=rp)
    I.samples = [dict(bounded='native battery', ordered_pairs=1200, cold_thread_runs=8, schedule_configs=5)]
