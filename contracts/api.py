"""Forwarding contracts of the public factories segno.make / make_qr / make_micro /
make_sequence: every documented parameter reaches encoder.encode (resp.
encode_sequence) under its own name and unchanged; make_qr forces micro=False,
make_micro forces micro=True and no ECI; the returned object wraps exactly the
Code the encoder returned.  The encoder entry points are replaced by a recording
summary (their own contracts are the C01-C08 obligations)."""
from pyvc.values import VBytearray, Obj, TupObj
from . import common as C

PARAMS_BY_PROP = {
    'C01': ('content', 'mode', 'encoding', 'eci'),
    'C04': ('version', 'micro'),
    'C05': ('error', 'boost_error'),
    'C06': ('mask',),
    'C08': ('content', 'error', 'version', 'mode', 'mask', 'encoding', 'boost_error', 'symbol_count'),
}
FUC = ['segno.make', 'segno.make_qr', 'segno.make_micro', 'segno.make_sequence', 'segno.QRCode.__init__']


class _Tok:
    def __init__(self, name):
        self.name = name

    def __repr__(self):
        return '<%s>' % self.name


def task_wrappers(I, prop):
    import segno
    enc = C.encoder()
    params = PARAMS_BY_PROP[prop]
    I.replay_spec = dict(fn='replay_api_forward')
    seen = {}

    def s_encode(I, clo, args, kwargs):
        seen['encode'] = I.bind_args(clo, args, kwargs)
        seg = TupObj(enc._Segment, (VBytearray([1]), 1, C.mode_const('byte'), 'iso-8859-1'))
        code = enc.Code((VBytearray([0]),), 1, 1, 0, [seg])
        seen['code'] = code
        return code

    def s_encode_sequence(I, clo, args, kwargs):
        seen['encode_sequence'] = I.bind_args(clo, args, kwargs)
        seg = TupObj(enc._Segment, (VBytearray([1]), 1, C.mode_const('byte'), 'iso-8859-1'))
        codes = [enc.Code((VBytearray([0]),), 1, 1, 0, [seg]), enc.Code((VBytearray([1]),), 1, 1, 0, [seg])]
        seen['codes'] = codes
        return codes
    I.summaries['segno.encoder:encode'] = s_encode
    I.summaries['segno.encoder:encode_sequence'] = s_encode_sequence
    all_params = ('content', 'error', 'version', 'mode', 'mask', 'encoding', 'eci', 'micro', 'boost_error')
    fixed = {'make': {}, 'make_qr': {'micro': False}, 'make_micro': {'micro': True, 'eci': False}}
    if prop != 'C08':
        for fname in ('make', 'make_qr', 'make_micro'):
            f = I.get_function('segno', fname)
            own = [p.arg for p in f.node.args.args]
            toks = {p: _Tok(p) for p in own}
            res = {}
            seen.clear()
            I.explore(lambda I: I.call_function(f, (), dict(toks)), lambda I, k, v: res.update(kind=k, val=v))
            got = seen.get('encode')
            I.ground('%s.api.%s.calls_encode_once' % (prop, fname), res.get('kind') == 'return' and got is not None,
                     witness=repr(res))
            if got is None:
                continue
            for p in params:
                if p in fixed[fname]:
                    I.ground('%s.api.%s.fixes_%s' % (prop, fname, p), got.get(p) is fixed[fname][p],
                             witness=dict(param=p, got=repr(got.get(p)), want=repr(fixed[fname][p])))
                elif p in toks:
                    I.ground('%s.api.%s.forwards_%s' % (prop, fname, p), got.get(p) is toks[p],
                             witness=dict(param=p, got=repr(got.get(p)), want=repr(toks[p])))
            # defaults of the wrapper equal the documented defaults (None / False / True)
            defaults = dict(zip(own[len(own) - len(f.defaults):], f.defaults))
            for p in params:
                if p in defaults:
                    want = {'eci': False, 'boost_error': True}.get(p, None)
                    I.ground('%s.api.%s.default_%s' % (prop, fname, p), defaults[p] is want,
                             witness=dict(param=p, got=repr(defaults[p]), want=repr(want)))
            v = res.get('val')
            ok = isinstance(v, Obj) and v.cls is segno.QRCode and v.attrs.get('matrix') is seen['code'].matrix
            I.ground('%s.api.%s.returns_QRCode_of_that_code' % (prop, fname), ok, witness=repr(v))
    else:
        f = I.get_function('segno', 'make_sequence')
        own = [p.arg for p in f.node.args.args]
        toks = {p: _Tok(p) for p in own}
        res = {}
        seen.clear()
        I.explore(lambda I: I.call_function(f, (), dict(toks)), lambda I, k, v: res.update(kind=k, val=v))
        got = seen.get('encode_sequence')
        I.ground('C08.api.make_sequence.calls_encode_sequence', res.get('kind') == 'return' and got is not None,
                 witness=repr(res))
        if got is not None:
            for p in params:
                I.ground('C08.api.make_sequence.forwards_%s' % p, got.get(p) is toks[p],
                         witness=dict(param=p, got=repr(got.get(p))))
            I.ground('C08.api.make_sequence.no_eci_no_micro', got.get('eci') is False, witness=repr(got.get('eci')))
            v = res.get('val')
            items = list(v.items) if isinstance(v, TupObj) else None
            ok = items is not None and len(items) == 2 and all(
                isinstance(q, Obj) and q.attrs.get('matrix') is c.matrix for q, c in zip(items, seen['codes']))
            I.ground('C08.api.make_sequence.wraps_every_code_in_order', ok, witness=repr(v))
