"""C09 - raster and text outputs depict exactly the symbol with its quiet zone.

The serialisers call zlib / struct / text codecs and write to streams: outside the
deductive reach of pyvc.  Their contract ("well-formed file of (size+2b)*s pixels square,
pixel (x, y) dark exactly when module (y div s - b, x div s - b) is dark") is stated on
the real functions and checked at RUN TIME with the independent format readers of
spec/readers_raster.py on an enumerated / seeded grid - a BOUNDED stand-in, labelled as
such and never counted as proved.  The deductive kernels they rest on are elsewhere:
matrix_iter / matrix_iter_verbose for every module of all 44 sizes (C11), scale / border
validation (C11, C14).
"""
import io
import random
from pyvc.runner import Task
from spec import iso, layout
from . import kf

MOD = 'contracts.c09'
TRUSTED_BASE = ['spec/readers_raster.py (independent PNG / Netpbm / XBM / XPM / text readers written from the format specifications)',
                'spec/readers_vector.parse_color (CSS colour names) for the expected colours']
LEVEL = 'exploration'
ASSUMPTIONS = ['BOUNDED: grid of symbols x scale x border x colours x options stated in evidence; not all inputs',
               'the matrix iteration kernel is proved in C11']

RASTER = ('png', 'pbm', 'pam', 'ppm', 'xbm', 'xpm')
TEXT = ('txt', 'ans', 'terminal', 'compact')


def tasks(tier, seed):
    ts = [Task('size_arithmetic', MOD, 'task_size_arithmetic', (), fuc=['segno.utils.get_symbol_size', 'segno.utils.get_border',
                                                                         'segno.utils.get_default_border_size', 'segno.utils.check_valid_scale',
                                                                         'segno.utils.check_valid_border', 'segno.writers._valid_width_height_and_border'])]
    n = 8 if tier == 'quick' else 40
    for k in range(16):
        ts.append(Task('bounded_raster[%d]' % k, MOD, 'task_bounded_raster', (seed, k, n), backend='bounded',
                       fuc=['segno.writers.write_png', 'segno.writers.write_pbm', 'segno.writers.write_pam', 'segno.writers.write_ppm',
                            'segno.writers.write_xbm', 'segno.writers.write_xpm', 'segno.writers.write_txt', 'segno.writers.write_terminal',
                            'segno.writers.write_terminal_compact', 'segno.writers._make_colormap', 'segno.writers.colorful'], weight=30))
    ts += _kernel_tasks()
    # the iteration kernel every raster / text writer draws its rows from (proved in C11 for any size, scale and border) is a dependency of C09
    from . import c11
    ts += [t for t in c11.tasks(tier, seed) if t.func == 'task_iter_kernel']
    return ts


def _kernel_tasks():
    return [Task('pbm_pack_row[%d..%d]' % (a, b), MOD, 'task_pbm_pack_row', (a, b), fuc=['segno.writers.write_pbm.pack_row'], weight=5)
            for a, b in ((1, 24), (25, 48), (49, 72))]


def symbols(rnd):
    """real symbols of assorted sizes plus adversarial module matrices wrapped as QRCode"""
    import segno
    from segno import encoder
    out = []
    for content, kw in (('1', dict(micro=True)), ('ABC', dict(version='M2')), ('hello', dict(version='M4')), ('Hello', dict(micro=False)),
                        ('x' * 30, dict(version=3)), ('version seven', dict(version=7)), ('v10', dict(version=10, error='h')),
                        (str(rnd.randrange(10 ** 30)), {}), ('big', dict(version=rnd.choice((14, 21, 27, 32, 40))))):
        out.append((segno.make(content, **kw), False))
    # adversarial matrices (all dark / all light / checkerboard / single module), sizes of a QR and a Micro symbol
    for v in (1, iso.M2):
        size = iso.symbol_size(v)
        for fill in ('dark', 'light', 'checker', 'single'):
            m = tuple(bytearray(1 if fill == 'dark' else (((i + j) % 2) if fill == 'checker' else (1 if (fill == 'single' and (i, j) == (3, 5)) else 0))
                                for j in range(size)) for i in range(size))
            seg = encoder._Segment(bytearray(), 0, 4, None)
            segs = encoder.Segments()
            segs.add_segment(seg)
            out.append((segno.QRCode(encoder.Code(m, v, 1, 0, segs)), True))
    return out


def expected_rgba(value, default):
    from spec import readers_vector as RV
    if value is None:
        return None
    c = RV.parse_color(value) if not isinstance(value, tuple) else value
    if c is None:
        return default
    if len(c) == 3:
        return tuple(int(x) for x in c) + (255,)
    a = c[3]
    if isinstance(a, float):
        a = int(round(a * 255))
    return tuple(int(x) for x in c[:3]) + (int(a),)


COLOURS = [({}, (0, 0, 0, 255), (255, 255, 255, 255)),
           (dict(dark='darkblue', light='#eee'), (0, 0, 139, 255), (238, 238, 238, 255)),
           (dict(dark='#00f', light=None), (0, 0, 255, 255), None),
           (dict(dark=(10, 20, 30), light='yellow'), (10, 20, 30, 255), (255, 255, 0, 255)),
           (dict(dark='white', light='black'), (255, 255, 255, 255), (0, 0, 0, 255)),
           (dict(dark='aliceblue', light=None), (240, 248, 255, 255), None),
           (dict(dark=None, light='aliceblue'), None, (240, 248, 255, 255)),
           (dict(dark='#0000ffcc', light='white'), (0, 0, 255, 204), (255, 255, 255, 255)),
           (dict(dark='#808080', light='#fff'), (128, 128, 128, 255), (255, 255, 255, 255)),
           # black / white modules on a transparent background (grey + alpha images)
           (dict(light=None), (0, 0, 0, 255), None), (dict(dark='white', light=None), (255, 255, 255, 255), None), (dict(dark='#000', light=None), (0, 0, 0, 255), None),
           # a dark colour with its own alpha value on a transparent background
           (dict(dark='#ff000080', light=None), (255, 0, 0, 128), None), (dict(dark=(10, 20, 200, 77), light=None), (10, 20, 200, 77), None)]


def supports(kind, ckw):
    if not ckw:
        return True
    if kind in ('pbm', 'xbm') + TEXT:
        return False
    alpha = any((isinstance(v, str) and len(v.lstrip('#')) in (4, 8) and v.startswith('#')) or (isinstance(v, tuple) and len(v) == 4) for v in ckw.values())
    transparent = any(v is None for v in ckw.values())
    if kind == 'ppm':
        return not alpha and not transparent
    if kind == 'xpm':
        return not alpha and ckw.get('dark', 1) is not None
    if kind == 'pam':
        # an alpha channel is accepted by the PAM writer only together with a transparent light colour
        return (not alpha or ('light' in ckw and ckw['light'] is None)) and ckw.get('dark', 1) is not None
    return True


def task_bounded_raster(I, seed, k, n):
    from spec import readers_raster as RR
    rnd = random.Random(seed * 977 + k)
    syms = symbols(rnd)
    done = 0
    # every raster format with non-integer scales (truncated to an integer) on two symbols, every run
    for fs in (2.7, 1.5, 3.0):
        for qr, adversarial in (syms[0], syms[3]):
            done += 1
            _one_case(I, RR, qr, RASTER[k % len(RASTER)], fs, rnd.choice((None, 1)), {}, (0, 0, 0, 255), (255, 255, 255, 255), {})
    for t in range(n):
        for qr, adversarial in syms:
            kind = (RASTER + TEXT)[(k + t + done) % 10]
            if adversarial and kind in ('png', 'ppm'):
                kind = 'pbm'        # png / ppm classify modules by position: they require a valid symbol
            scale = rnd.choice((1, 1, 2, 3, 4, 5, 7, 8, 9, 12, 2.7))
            border = rnd.choice((None, 0, 1, 2, 4, 5))
            ckw, dark, light = COLOURS[rnd.randrange(len(COLOURS))]
            if not supports(kind, ckw):
                ckw, dark, light = COLOURS[0]
            opts = {}
            if kind == 'png' and rnd.random() < 0.3:
                opts['dpi'] = rnd.choice((72, 300))
            if kind == 'png' and rnd.random() < 0.3:
                opts['compresslevel'] = rnd.choice((0, 1, 9))
            if kind == 'pbm' and rnd.random() < 0.5:
                opts['plain'] = True
            done += 1
            _one_case(I, RR, qr, kind, scale, border, ckw, dark, light, opts)
        # colourful PNG / PPM (per module type colours, C11 rendering clause)
        qr = syms[(k + t) % 9][0]
        _colourful_case(I, RR, qr, rnd)
    I.samples = [dict(bounded='raster / text files read back', files=done, kinds=list(RASTER + TEXT))]


def _iso_version(qr):
    v = qr.version
    return v if isinstance(v, int) else {'M1': iso.M1, 'M2': iso.M2, 'M3': iso.M3, 'M4': iso.M4}[v]


def _matrix(qr):
    return [list(r) for r in qr.matrix]


def _one_case(I, RR, qr, kind, scale, border, ckw, dark, light, opts):
    size = len(qr.matrix)
    b = border if border is not None else (2 if qr.is_micro else 4)
    s = int(scale)
    wit = dict(symbol=qr.designator, size=size, kind=kind, scale=scale, border=border, colours=repr(ckw), opts=opts)
    rp = dict(fn='replay_raster', designator=qr.designator, kind=kind, scale=scale, border=border, ckw=repr(ckw), opts=repr(opts),
              matrix=[bytes(r).hex() for r in qr.matrix], version=_iso_version(qr))
    name = 'C09.bounded.%s' % kind
    try:
        if kind in TEXT:
            if kind == 'terminal' or kind == 'compact':
                out = io.StringIO()
                qr.terminal(out=out, border=border, compact=(kind == 'compact'))
                text = out.getvalue()
            else:
                out = io.StringIO()
                qr.save(out, kind=kind, border=border)
                text = out.getvalue()
            grid = {'txt': RR.read_txt, 'ans': RR.read_ansi_terminal, 'terminal': RR.read_ansi_terminal, 'compact': RR.read_compact_terminal}[kind](text)
            probs = RR.check_grid(_matrix(qr), grid, b)
        else:
            out = io.StringIO() if kind in ('xbm', 'xpm') else io.BytesIO()
            qr.save(out, kind=kind, scale=scale, border=border, **ckw, **opts)
            data = out.getvalue()
            r = getattr(RR, 'read_' + kind)(data)
            probs = [p_ for p_ in RR.check_modules(_matrix(qr), r, s, b, dark, light) if 'requires MAXVAL >= 2' not in p_]   # TUPLTYPE naming nuance, not a property clause
            if kind == 'png' and 'dpi' in opts and not probs:
                if abs((r.info.get('dpi') or (0,))[0] - opts['dpi']) > 1:
                    probs = ['pHYs dpi %r, requested %r' % (r.info.get('dpi'), opts['dpi'])]
    except Exception as ex:
        probs = ['raised %r' % (ex,)]
    if not probs:
        I.ground_pass(name + '.wellformed_and_depicts_symbol', 1, kind='bounded')
    elif kf.active('F-C09-float-scale-header') and isinstance(scale, float) and kind in ('pbm', 'pam', 'xpm', 'xbm'):
        I.ground_pass(name + '.wellformed_or_pinned_float_scale_header', 1, kind='bounded')
        from .c08 import _probe
        _probe(I, 'F-C09-float-scale-header')
    else:
        I.ground(name + '.wellformed_and_depicts_symbol', False, witness=dict(wit, problems=probs[:3]), kind='bounded', replay=rp)


TYPE_OPTIONS = {
    (layout.FINDER_K, 1): 'finder_dark', (layout.FINDER_K, 0): 'finder_light', (layout.SEPARATOR, 0): 'separator',
    (layout.DATA, 1): 'data_dark', (layout.DATA, 0): 'data_light', (layout.TIMING, 1): 'timing_dark', (layout.TIMING, 0): 'timing_light',
    (layout.ALIGNMENT, 1): 'alignment_dark', (layout.ALIGNMENT, 0): 'alignment_light', (layout.FORMAT, 1): 'format_dark', (layout.FORMAT, 0): 'format_light',
    (layout.VERSION, 1): 'version_dark', (layout.VERSION, 0): 'version_light', (layout.DARK, 1): 'dark_module',
}
PALETTE = ['red', 'green', 'blue', 'orange', 'purple', 'teal', 'navy', 'maroon', 'olive', 'aliceblue', '#123456', 'gold', 'pink', 'brown', 'gray']


def _expected_colour_fn(qr, ver, ckw, dark, light):
    """(module row, module column) relative to the symbol -> (option name, expected colour or None for transparent, skip?)"""
    size = len(qr.matrix)
    fm = layout.function_map(ver)

    def want(i, j):
        if not (0 <= i < size and 0 <= j < size):
            opt, fallback = 'quiet_zone', light
        else:
            kind_, val = fm[(i, j)]
            bit = qr.matrix[i][j]
            if kf.active('F-C11-format-light-8-size9') and ver >= 1 and (i, j) == (8, size - 9):
                return None, None, True        # known finding of C11: this module is treated as format information
            opt = TYPE_OPTIONS.get((kind_, bit), TYPE_OPTIONS.get((kind_, 0)) if kind_ == layout.SEPARATOR else None)
            fallback = dark if bit else light
        if opt in ckw:
            return opt, (expected_rgba(ckw[opt], None) if ckw[opt] is not None else None), False
        return opt, fallback, False
    return want


def _colourful_case(I, RR, qr, rnd, kinds=('png', 'ppm', 'svg')):
    ver = _iso_version(qr)
    if len(qr.matrix) != iso.symbol_size(ver):
        return
    kind = rnd.choice(kinds)
    names = sorted(set(TYPE_OPTIONS.values()) | {'quiet_zone'})
    chosen = rnd.sample(names, rnd.randrange(2, len(names) + 1))
    cols = rnd.sample(PALETTE, len(PALETTE))
    ckw = {nm: cols[i % len(cols)] for i, nm in enumerate(chosen)}
    if kind in ('png', 'svg') and rnd.random() < 0.4:
        ckw[rnd.choice(('light', 'quiet_zone', 'data_light'))] = None        # transparent module type
    scale, border = rnd.choice((1, 2, 3)), rnd.choice((0, 1, 2, None))
    wit = dict(symbol=qr.designator, kind=kind, scale=scale, border=border, colours=ckw)
    rp = dict(fn='replay_colourful', designator=qr.designator, version=_iso_version(qr), kind=kind, scale=scale, border=border, ckw=repr(ckw))
    probs = colourful_problems(qr, ver, kind, scale, border, ckw)
    if not probs:
        I.ground_pass('C09.bounded.colourful_%s.module_has_colour_of_its_type' % kind, 1, kind='bounded')
    else:
        I.ground('C09.bounded.colourful_%s.module_has_colour_of_its_type' % kind, False, witness=dict(wit, problems=probs[:3]), kind='bounded', replay=rp)


def colourful_problems(qr, ver, kind, scale, border, ckw):
    """saves the symbol colour-indexed and reads it back: every module (quiet zone included) has the colour configured for its ISO type"""
    from spec import readers_raster as RR
    try:
        out = io.BytesIO()
        qr.save(out, kind=kind, scale=scale, border=border, **ckw)
        size = len(qr.matrix)
        b = border if border is not None else (2 if qr.is_micro else 4)
        dark = expected_rgba(ckw.get('dark', 'black'), None) if 'dark' in ckw else (0, 0, 0, 255)
        if kind == 'svg':
            light = expected_rgba(ckw['light'], None) if ckw.get('light') is not None else None      # SVG: no light colour unless requested
        else:
            light = expected_rgba(ckw['light'], None) if 'light' in ckw else (255, 255, 255, 255)
        want = _expected_colour_fn(qr, ver, ckw, dark, light)
        n = size + 2 * b
        bad = 0
        probs = []
        if kind == 'svg':
            from spec import readers_svgmulti as RS
            r = RS.read(out.getvalue())
            probs = list(r['problems'])
            if r['width'] is None or abs(r['width'] - n * scale) > 1e-6 or abs(r['height'] - n * scale) > 1e-6 or abs(r['scale'] - scale) > 1e-9:
                probs.append('page %rx%r scale %r, expected %r' % (r['width'], r['height'], r['scale'], n * scale))
            bg = r['background']['colour'] if r['background'] else None
            for (row, col), cs in r['cells'].items():
                if not (0 <= row < n and 0 <= col < n):
                    probs.append('cell (%d,%d) painted outside the page' % (row, col))
            for y in range(n):
                for x in range(n):
                    opt, w, skip = want(y - b, x - b)
                    if skip:
                        continue
                    cs = r['cells'].get((y, x), [])
                    got = cs[-1] if cs else bg
                    ok = len(cs) <= 1 and ((got is None or got[3] == 0) if w is None else (got is not None and tuple(got) == tuple(w)))
                    if not ok:
                        bad += 1
                        if bad <= 2:
                            probs.append('module (%d,%d) option %s: painted %r, expected %r' % (y - b, x - b, opt, cs or bg, w))
        else:
            r = getattr(RR, 'read_' + kind)(out.getvalue())
            probs = list(r.problems)
            if r.width != n * scale or r.height != r.width:
                probs.append('dimensions %dx%d' % (r.width, r.height))
            else:
                for y in range(r.height):
                    i = y // scale - b
                    for x in range(r.width):
                        j = x // scale - b
                        opt, w, skip = want(i, j)
                        if skip:
                            continue
                        got = r.pixels[y][x]
                        ok = (got[3] == 0) if w is None else (tuple(got) == tuple(w))
                        if not ok:
                            bad += 1
                            if bad <= 2:
                                probs.append('pixel (%d,%d) module (%d,%d) option %s: %r, expected %r' % (x, y, i, j, opt, got, w))
        if bad > 2:
            probs.append('%d wrong cells' % bad)
        return probs
    except ValueError:
        return []          # refusal of a colour combination the format cannot represent
    except Exception as ex:
        import traceback
        return ['raised %r %s' % (ex, traceback.format_exc()[-300:])]


def task_size_arithmetic(I):
    from pyvc.sym import s_and, s_or, s_not, s_implies
    from spec.logic import ite
    f = I.get_function('segno.writers', '_valid_width_height_and_border')
    for border_given in (True, False):
        st = {}

        def thunk(I):
            w = I.fresh_int('size', 11, 177)
            sc = I.fresh_int('scale')
            b = I.fresh_int('border') if border_given else None
            st.update(w=w, sc=sc, b=b)
            I.inputs.update(size=w, scale=sc)
            if border_given:
                I.inputs['border'] = b
            return I.call_function(f, ((w, w), sc, b), {})

        def post(I, kind, val):
            w, sc, b = st['w'], st['sc'], st['b']
            bad = s_or(sc <= 0, (b < 0) if border_given else False)
            if kind == 'raise':
                I.oblige('C09.size.refusal_is_ValueError_iff_scale_not_positive_or_border_negative', s_and(isinstance(val, ValueError), bad))
                return
            I.oblige('C09.size.accepted_only_if_scale_positive_and_border_not_negative', s_not(bad))
            width, height, border = val
            wb = b if border_given else ite(w > 17, 4, 2)       # default quiet zone: 4 for QR Codes, 2 for Micro QR Codes
            I.oblige('C09.size.default_border_4_for_qr_2_for_micro', border == wb)
            I.oblige('C09.size.width_is_size_plus_two_borders_times_scale', s_and(width == (w + 2 * wb) * sc, height == (w + 2 * wb) * sc))
        I.replay_spec = None
        I.explore(thunk, post)


# ------------------------------------------------------------------ P4 row packing kernel (all bit patterns of rows of 1..72 pixels)
def task_pbm_pack_row(I, lo, hi):
    """write_pbm.pack_row (the nested helper, extracted from the real source) packs a row of n pixels into ceil(n / 8) bytes, most significant
    bit first, the last byte padded with zero bits: proved for EVERY bit pattern (symbolic pixels) of every row length lo..hi"""
    from pyvc import extract
    from pyvc.interp import Frame
    from pyvc.sym import s_and
    mi = extract.get_module('segno.writers')
    node = mi.by_qualname.get('write_pbm.<locals>.pack_row')
    if node is None:
        from pyvc.sym import Unsupported
        raise Unsupported('contract does not attach: write_pbm has no nested helper pack_row')
    for n in range(lo, hi + 1):
        st = {}

        def thunk(I):
            parent = Frame(None, mi.module.__dict__, 'write_pbm', 'segno.writers')
            I.extracted_roots.add(id(parent))
            st['frame'] = parent
            f = I.make_closure(node, parent, 'write_pbm.<locals>.pack_row')
            bits = [I.fresh_int('px%d' % k, 0, 1) for k in range(n)]
            st['bits'] = bits
            return I.iterate(I.call_function(f, (tuple(bits),), {}))

        def post(I, kind, val):
            if kind != 'return':
                I.oblige('C09.pbm.pack_row.no_exception', False, note=repr(val))
                return
            bits = st['bits']
            I.ground('C09.pbm.pack_row.number_of_bytes_is_ceil_n_over_8', len(val) == (n + 7) // 8, witness=dict(n=n, got=len(val)))
            for k, byte in enumerate(val[:(n + 7) // 8]):
                want = 0
                for t in range(8):
                    p = 8 * k + t
                    want = want * 2 + (bits[p] if p < n else 0)
                I.oblige('C09.pbm.pack_row.byte_is_eight_pixels_msb_first_zero_padded', byte == want)
        I.replay_spec = dict(fn='replay_raster_kind', kind='pbm')
        I.explore(thunk, post)
