"""C02 - geometry, function patterns, format / version information, metadata.

Functions under contract: calc_matrix_size, make_matrix, add_timing_pattern,
add_finder_patterns, add_alignment_patterns, calc_format_info, add_format_info,
add_version_info, QRCode.__init__ and its metadata properties,
utils.get_default_border_size, utils.get_symbol_size, get_version_name,
get_error_name, get_mode_name.

Back end cc-sym: the configuration (version, level, mask) is concrete - all control
flow of these functions is decided by it - and every matrix cell is a symbolic
token, so one run per configuration covers every data content.  The configuration
space (44 versions x levels x masks = 1312 + 32 Micro) is enumerated completely.
"""
from pyvc.runner import Task
from pyvc.sym import SInt, is_sym, fresh_int, named_int
from pyvc.values import VBytearray, Obj, TupObj
from spec import iso, layout
from . import common as C

MOD = 'contracts.c02'
TRUSTED_BASE = ['pyvc interpreter (concrete control, symbolic cells)',
                'spec/layout.py: ISO 6.3 function patterns, Annex E step rule, 7.9/7.10 positions (Figures 25-28), '
                'BCH(15,5) and Golay(18,6) by polynomial division; cross-checked by the module-count identity '
                '(data modules == 8 * codewords + remainder bits)']
ASSUMPTIONS = ['matrix cells written by earlier stages are arbitrary values (tokens): the stages under contract never read them',
               'order of the stages is the glue contract C02._encode.*']


def tasks(tier, seed):
    ts = [Task('tables', MOD, 'task_tables', (), backend='ground', fuc=['segno.consts (FORMAT_INFO, FORMAT_INFO_MICRO, VERSION_INFO, ALIGNMENT_POS)'])]
    for v in iso.ALL_VERSIONS:
        ts.append(Task('layout[%s]' % iso.version_name(v), MOD, 'task_layout', (v,), backend='cc-sym',
                       fuc=['segno.encoder.calc_matrix_size', 'segno.encoder.make_matrix', 'segno.encoder.add_timing_pattern',
                            'segno.encoder.add_finder_patterns', 'segno.encoder.add_alignment_patterns'],
                       weight=max(1, v)))
        ts.append(Task('format_version_info[%s]' % iso.version_name(v), MOD, 'task_format_version', (v,), backend='cc-sym',
                       fuc=['segno.encoder.add_format_info', 'segno.encoder.calc_format_info', 'segno.encoder.add_version_info'],
                       weight=max(1, v) * 4))
    ts.append(Task('metadata', MOD, 'task_metadata', (), backend='ground',
                   fuc=['segno.QRCode.__init__', 'segno.QRCode.version', 'segno.QRCode.error', 'segno.QRCode.mode',
                        'segno.QRCode.designator', 'segno.QRCode.is_micro', 'segno.QRCode.default_border_size',
                        'segno.QRCode.symbol_size', 'segno.utils.get_default_border_size', 'segno.utils.get_symbol_size',
                        'segno.encoder.get_version_name', 'segno.encoder.get_error_name', 'segno.encoder.get_mode_name']))
    from . import glue, c03
    ts += glue.glue_tasks('C02')
    ts += c03.tasks(tier, seed, prefix='C02')   # only dark/light modules: every encoding-region module receives a bit
    return ts


def task_tables(I):
    c = C.consts()
    I.replay_spec = dict(fn='replay_table', table='FORMAT')
    for lv in iso.LEVELS:
        for m in range(8):
            idx = (iso.LEVEL_BITS[lv] << 3) | m
            I.ground('C02.table.FORMAT_INFO', c.FORMAT_INFO[idx] == layout.format_word(1, lv, m),
                     witness=dict(level=lv, mask=m, got=c.FORMAT_INFO[idx], want=layout.format_word(1, lv, m)))
    k = 0
    for v in iso.MICRO:
        for lv in iso.levels_of(v):
            for m in range(4):
                idx = (k << 2) | m
                I.ground('C02.table.FORMAT_INFO_MICRO', c.FORMAT_INFO_MICRO[idx] == layout.format_word(v, lv, m),
                         witness=dict(version=v, level=lv, mask=m, got=c.FORMAT_INFO_MICRO[idx]))
            k += 1
    I.ground('C02.table.FORMAT_INFO.size', len(c.FORMAT_INFO) == 32 and len(c.FORMAT_INFO_MICRO) == 32, witness=None)
    for v in range(7, 41):
        I.ground('C02.table.VERSION_INFO', c.VERSION_INFO[v - 7] == layout.golay18_6(v),
                 witness=dict(version=v, got=c.VERSION_INFO[v - 7], want=layout.golay18_6(v)))
    for v in range(2, 41):
        I.ground('C02.table.ALIGNMENT_POS', tuple(c.ALIGNMENT_POS[v - 2]) == tuple(layout.alignment_positions(v)),
                 witness=dict(version=v, got=repr(c.ALIGNMENT_POS[v - 2]), want=layout.alignment_positions(v)))


def _run(I, thunk):
    res = {}
    I.explore(thunk, lambda I, k, val: res.update(kind=k, val=val))
    return res


def task_layout(I, v):
    size = iso.symbol_size(v)
    f_size = I.get_function('segno.encoder', 'calc_matrix_size')
    f_mm = I.get_function('segno.encoder', 'make_matrix')
    f_fp = I.get_function('segno.encoder', 'add_finder_patterns')
    f_ap = I.get_function('segno.encoder', 'add_alignment_patterns')
    I.replay_spec = dict(fn='replay_layout', version=v)

    def thunk(I):
        w = I.call_function(f_size, (v,), {})
        m = I.call_function(f_mm, (w, w), {})
        I.call_function(f_fp, (m, w, w), {})
        I.call_function(f_ap, (m, w, w), {})
        return w, m
    res = _run(I, thunk)
    ok = res.get('kind') == 'return'
    I.ground('C02.layout.no_exception', ok, witness=dict(version=v, outcome=repr(res.get('val'))))
    if not ok:
        return
    w, m = res['val']
    I.ground('C02.calc_matrix_size', w == size, witness=dict(version=v, got=w, want=size))
    shape_ok = isinstance(m, tuple) and len(m) == size and all(isinstance(r, VBytearray) and len(r.items) == size for r in m)
    I.ground('C02.layout.square_matrix', shape_ok, witness=dict(version=v))
    if not shape_ok:
        return
    I.ground('C02.layout.rows_distinct_objects', len(set(id(r) for r in m)) == size, witness=dict(version=v))
    fm = layout.function_map(v)
    passed = {}
    for i in range(size):
        row = m[i].items
        for j in range(size):
            kind, val = fm[(i, j)]
            got = row[j]
            if kind == layout.DATA:
                want = 2           # placeholder of the encoding region
            elif val is None or kind == layout.DARK:
                want = 0           # reserved light: format / version information, dark module
            else:
                want = val
            if (not is_sym(got)) and got == want:
                passed[kind] = passed.get(kind, 0) + 1
            else:
                I.ground('C02.layout.%s' % kind, False,
                         witness=dict(version=iso.version_name(v), row=i, col=j, got=repr(got), want=want, kind=kind))
    for kind, n in passed.items():
        I.ground_pass('C02.layout.%s' % kind, n)


class _Cell:
    """opaque content of a matrix cell written by an earlier stage"""
    __slots__ = ()


def _token_matrix(size):
    return tuple(VBytearray([_Cell() for j in range(size)]) for i in range(size))


def task_format_version(I, v):
    size = iso.symbol_size(v)
    f_fi = I.get_function('segno.encoder', 'add_format_info')
    f_vi = I.get_function('segno.encoder', 'add_version_info')
    pos = layout.format_positions(v)
    for lv in iso.levels_of(v):
        for mask in range(layout.n_masks(v)):
            st = {}

            def thunk(I):
                m = _token_matrix(size)
                st['orig'] = [list(r.items) for r in m]
                st['m'] = m
                I.call_function(f_fi, (m, v, C.level_const(lv), mask), {})
                return m
            I.replay_spec = dict(fn='replay_format_info', version=v, level=lv, mask=mask)
            res = _run(I, thunk)
            ok = res.get('kind') == 'return'
            I.ground('C02.add_format_info.no_exception', ok, witness=dict(version=v, level=lv, mask=mask, outcome=repr(res.get('val'))))
            if not ok:
                continue
            word = layout.format_word(v, lv, mask)
            want = {}
            for copy in pos:
                for b, p in enumerate(copy):
                    want[p] = (word >> b) & 1
            if v >= 1:
                want[(size - 8, 8)] = 1
            m, orig = st['m'], st['orig']
            nframe = 0
            for i in range(size):
                row = m[i].items
                orow = orig[i]
                for j in range(size):
                    got = row[j]
                    if (i, j) in want:
                        nm = 'C02.add_format_info.dark_module' if (v >= 1 and (i, j) == (size - 8, 8)) else 'C02.add_format_info.bit'
                        I.ground(nm, (not is_sym(got)) and got == want[(i, j)],
                                 witness=dict(version=iso.version_name(v), level=lv, mask=mask, row=i, col=j, got=repr(got), want=want[(i, j)]))
                    elif got is orow[j]:
                        nframe += 1
                    else:
                        I.ground('C02.add_format_info.frame', False,
                                 witness=dict(version=iso.version_name(v), level=lv, mask=mask, row=i, col=j, got=repr(got)))
            I.ground_pass('C02.add_format_info.frame', nframe)
    # version information
    st = {}

    def thunk2(I):
        m = _token_matrix(size)
        st['orig'] = [list(r.items) for r in m]
        st['m'] = m
        I.call_function(f_vi, (m, v), {})
        return m
    I.replay_spec = dict(fn='replay_version_info', version=v)
    res = _run(I, thunk2)
    ok = res.get('kind') == 'return'
    I.ground('C02.add_version_info.no_exception', ok, witness=dict(version=v, outcome=repr(res.get('val'))))
    if ok:
        want = {}
        if v >= 7:
            word = layout.golay18_6(v)
            for blk in layout.version_positions(v):
                for b, p in enumerate(blk):
                    want[p] = (word >> b) & 1
        m, orig = st['m'], st['orig']
        for i in range(size):
            row = m[i].items
            for j in range(size):
                got = row[j]
                if (i, j) in want:
                    I.ground('C02.add_version_info.bit', (not is_sym(got)) and got == want[(i, j)],
                             witness=dict(version=v, row=i, col=j, got=repr(got), want=want[(i, j)]))
                elif got is orig[i][j]:
                    I.ground_pass('C02.add_version_info.frame', 1)
                else:
                    I.ground('C02.add_version_info.frame', False, witness=dict(version=v, row=i, col=j, got=repr(got)))


def task_metadata(I):
    import segno
    enc = C.encoder()
    I.replay_spec = None
    for v in iso.ALL_VERSIONS:
        size = iso.symbol_size(v)
        for lv in iso.levels_of(v):
            for mask in range(layout.n_masks(v)):
                for mode in iso.MODES + (None,):
                    if mode is not None and not iso.mode_available(mode, v):
                        continue
                    if mode is None:
                        segs = [TupObj(enc._Segment, (VBytearray([0]), 1, C.mode_const('numeric'), None)),
                                TupObj(enc._Segment, (VBytearray([0]), 1, C.mode_const('byte'), 'iso-8859-1'))]
                    else:
                        segs = [TupObj(enc._Segment, (VBytearray([0]), 1, C.mode_const(mode), None))]
                    sobj = Obj(enc.Segments)
                    sobj.attrs.update(segments=segs, bit_length=2, modes=[s.items[2] for s in segs])
                    matrix = tuple(VBytearray([0] * size) for _ in range(size))
                    code = enc.Code(matrix, v, C.level_const(lv), mask, sobj)
                    out = {}

                    def thunk(I):
                        q = I.instantiate(segno.QRCode, (code,), {})
                        for a in ('version', 'error', 'mode', 'designator', 'is_micro', 'default_border_size', 'mask', 'matrix'):
                            out[a] = I.getattr(q, a)
                        out['symbol_size'] = I.call_function(I.getattr(q, 'symbol_size'), (), {})
                        out['symbol_size_s3_b1'] = I.call_function(I.getattr(q, 'symbol_size'), (), dict(scale=3, border=1))
                        return q
                    res = _run(I, thunk)
                    w = dict(version=iso.version_name(v), level=lv, mask=mask, mode=mode, got={k: repr(x) for k, x in out.items() if k != 'matrix'})
                    I.ground('C02.metadata.no_exception', res.get('kind') == 'return', witness=repr(res.get('val')))
                    if res.get('kind') != 'return':
                        continue
                    vn = iso.version_name(v)
                    I.ground('C02.metadata.version', out['version'] == vn, witness=w)
                    I.ground('C02.metadata.error', out['error'] == lv, witness=w)
                    I.ground('C02.metadata.mask', out['mask'] == mask, witness=w)
                    I.ground('C02.metadata.is_micro', out['is_micro'] is (v < 1), witness=w)
                    I.ground('C02.metadata.mode', out['mode'] == mode, witness=w)
                    I.ground('C02.metadata.designator', out['designator'] == ('%s-%s' % (vn, lv) if lv else str(vn)), witness=w)
                    b = 2 if v < 1 else 4
                    I.ground('C02.metadata.default_border_size', out['default_border_size'] == b, witness=w)
                    I.ground('C02.metadata.symbol_size', tuple(out['symbol_size']) == (size + 2 * b, size + 2 * b) and
                             tuple(out['symbol_size_s3_b1']) == ((size + 2) * 3, (size + 2) * 3), witness=w)
                    I.ground('C02.metadata.matrix_is_code_matrix', out['matrix'] is matrix, witness=w)
