"""Glue contract of encoder._encode: the stages are called in the ISO order, each
with the values the previous stages produced.  Every callee is replaced by a
recording summary (its own contract is proved elsewhere); the buffer is a
symbolic-length bit buffer so that `len(buff)` arguments are checked exactly.

Obligations are emitted under the property that relies on them:
  C13._encode.*  order / arguments of terminator, padding bits, pad codewords
  C05._encode.*  boosted level is computed from the right arguments and is the one used everywhere
  C02._encode.*  format / version information written after masking, with the level / mask / version used
  C01._encode.*  SA header and every segment written in order before the terminator
  C06._encode.*  requested mask passed on, returned mask used for the format information
"""
import z3
from pyvc.runner import Task
from pyvc.sym import s_and, s_or, s_not, s_implies, SInt, is_sym, same_value, Unsupported
from pyvc.values import Obj, SBits, OpaqueSeq, OpaqueElem, TupObj
from pyvc.interp import LoopSpec, PyRaise
from spec import iso
from . import common as C

MOD = 'contracts.glue'
FUC = ['segno.encoder._encode', 'segno.encoder.calc_matrix_size', 'segno.encoder.version_range']
CALLEES = ['boost_error_level', 'write_segment', 'write_terminator', 'write_padding_bits', 'write_pad_codewords',
           'make_final_message', 'make_matrix', 'add_finder_patterns', 'add_alignment_patterns', 'add_codewords',
           'find_and_apply_best_mask', 'add_format_info', 'add_version_info']


class Tok:
    def __init__(self, name):
        self.name = name

    def __repr__(self):
        return '<%s>' % self.name


def glue_tasks(prop):
    return [Task('_encode.glue[%s]' % iso.version_name(v), MOD, 'task_glue', (prop, v), fuc=FUC)
            for v in iso.ALL_VERSIONS]


def task_glue(I, prop, v):
    enc = C.encoder()
    consts = C.consts()
    log = []
    segbits = z3.Function('segbits', z3.IntSort(), z3.IntSort())   # cumulative bits written by the first k segments
    st = {}

    def buf_len():
        return st['buff'].attrs['_data'].length

    def grow(n):
        d = st['buff'].attrs['_data']
        d.arr = z3.Array(I_fresh('a'), z3.IntSort(), z3.IntSort())
        d.length = d.length + n

    cnt = [0]

    def I_fresh(p):
        cnt[0] += 1
        return '%s_%d' % (p, cnt[0])

    def rec(name):
        def summary(I, clo, args, kwargs):
            b = I.bind_args(clo, args, kwargs)
            b['_len_at_call'] = buf_len() if 'buff' in st else None
            log.append((name, b))
            return handlers[name](I, b)
        return summary

    def h_boost(I, b):
        st['boosted'] = Tok('boosted_level')
        # contract of boost_error_level: a level defined for the version
        return st['boosted_const']

    def h_write_segment(I, b):
        seg = b['segment']
        st['buff'] = b['buff']
        idx = seg.index if isinstance(seg, OpaqueElem) else None
        if idx is not None:
            n = SInt(segbits(idx.e if isinstance(idx, SInt) else z3.IntVal(idx)))
            I.assume(n >= 0)
            grow(n)
        st['n_written'] = st.get('n_written', 0) + 1
        b['_index'] = idx
        return None

    def h_writer(I, b):
        st['buff'] = b['buff']
        n = I.fresh_int('w', 0, None)
        grow(n)
        return None

    def h_final(I, b):
        st['final'] = Tok('final_message')
        return st['final']

    def h_make_matrix(I, b):
        st['matrix'] = Tok('matrix')
        return st['matrix']

    def h_none(I, b):
        return None

    def h_mask(I, b):
        st['masked'] = Tok('masked_matrix')
        pm = b['proposed_mask']
        st['mask_out'] = pm if pm is not None else Tok('best_mask')
        return (st['mask_out'], st['masked'])

    handlers = dict(boost_error_level=h_boost, write_segment=h_write_segment, write_terminator=h_writer,
                    write_padding_bits=h_writer, write_pad_codewords=h_writer, make_final_message=h_final,
                    make_matrix=h_make_matrix, add_finder_patterns=h_none, add_alignment_patterns=h_none,
                    add_codewords=h_none, find_and_apply_best_mask=h_mask, add_format_info=h_none,
                    add_version_info=h_none)
    for nme in CALLEES:
        I.summaries['segno.encoder:' + nme] = rec(nme)

    # Buffer() must be the symbolic-length bit buffer
    def s_buffer_init(I, clo, args, kwargs):
        b = I.bind_args(clo, args, kwargs)
        b['self'].attrs['_data'] = SBits(None, 0)
        st['buff'] = b['self']
        if b['iterable'] != ():
            raise PyRaise(TypeError('glue: Buffer(iterable) not expected'))
    I.summaries['segno.encoder:Buffer.__init__'] = s_buffer_init

    # loop over the segments: invariant = the first k segments were written in order
    def inv(ctx):
        k = ctx.k
        writes = st.get('n_written', 0)
        if isinstance(k, int) and k == 0 and 'hdr' not in st and 'buff' in st:
            st['hdr'] = st['buff'].attrs['_data'].snapshot()     # stream before the first segment
        return [('segments_written_in_order', writes == k)]

    def havoc(ctx):
        st['n_written'] = ctx.k
        d = st['buff'].attrs['_data']
        d.arr = z3.Array(I_fresh('h'), z3.IntSort(), z3.IntSort())
        d.length = ctx.interp.fresh_int('len_h', 0, None)
    f_enc = I.get_function('segno.encoder', '_encode')
    from pyvc import extract
    loops = extract.loops_of(f_enc.node)
    # the loop that iterates `segments` is the one whose iterable is the parameter
    seg_loop = [i + 1 for i, n in enumerate(loops) if isinstance(n.iter, __import__('ast').Name) and n.iter.id == 'segments']
    if len(seg_loop) != 1:
        raise Unsupported('loop contract does not attach: _encode has %d loops over its segments parameter' % len(seg_loop))
    if seg_loop:
        I.loopspecs[('segno.encoder:_encode', seg_loop[0])] = LoopSpec(inv, havoc)

    P = prop
    for level in iso.levels_of(v):
        lvc = C.level_const(level)
        others = [C.level_const(l) for l in iso.levels_of(v) if l is not None]
        for boost in (True, False):
            for sa in ((False, True) if v >= 1 else (False,)):
                for eci in ((False, True) if v >= 1 else (False,)):
                    for mask in (None, 2):
                        def thunk(I):
                            del log[:]
                            st.clear()
                            cnt[0] = 0
                            # the boosted level is an arbitrary level defined for the version
                            if others and boost:
                                bl = I.fresh_int('boosted', min(others), max(others))
                                I.assume(s_or(*[bl == o for o in others]))
                                st['boosted_const'] = bl
                            else:
                                st['boosted_const'] = lvc
                            n = I.fresh_int('n_segments', 1, None)
                            segs = Obj(enc.Segments)
                            segs.attrs['segments'] = OpaqueSeq('segments', n)
                            st['segs'] = segs
                            sa_info = None
                            if sa:
                                num = I.fresh_int('sa_number', 0, 15)
                                tot = I.fresh_int('sa_total', 1, 15)
                                par = I.fresh_int('sa_parity', 0, 255)
                                sa_info = TupObj(enc._StructuredAppendInfo, (consts.MODE_STRUCTURED_APPEND, num, tot, par))
                                st['sa'] = (num, tot, par)
                            return I.call_function(f_enc, (segs, lvc, v, mask, eci, boost), dict(sa_info=sa_info))

                        def post(I, kind, val):
                            if kind != 'return':
                                I.oblige(P + '._encode.no_exception', False, note='raised %r' % (val,))
                                return
                            names = [n for n, _ in log]
                            ver = None if v >= 1 else v
                            # expected sequence of stage calls after the segment loop
                            tail = ['write_terminator', 'write_padding_bits', 'write_pad_codewords', 'make_final_message',
                                    'make_matrix', 'add_finder_patterns', 'add_alignment_patterns', 'add_codewords',
                                    'find_and_apply_best_mask', 'add_format_info', 'add_version_info']
                            head = (['boost_error_level'] if boost else [])
                            segcalls = [n for n in names if n == 'write_segment']
                            rest = [n for n in names if n != 'write_segment']
                            I.ground(P + '._encode.stage_order', rest == head + tail, witness=repr(names), kind='sufficient')
                            if rest != head + tail:
                                return
                            d = dict((n, b) for n, b in log if n != 'write_segment')
                            used = st['boosted_const'] if boost else lvc
                            if boost:
                                b = d['boost_error_level']
                                I.ground(P + '._encode.boost_args', b['version'] == v and b['error'] == lvc and
                                         b['segments'] is st['segs'] and b['eci'] is eci and b['is_sa'] is sa, witness=repr(b), kind='sufficient')
                            # all segments written (loop exit: k == n) - checked by the loop contract; order of the tail:
                            I.oblige(P + '._encode.all_segments_written', st.get('n_written', 0) == st['segs'].attrs['segments'].length)
                            for n_, b in log:
                                if n_ == 'write_segment':
                                    I.ground(P + '._encode.write_segment_args', b['ver'] == ver and b['eci'] is eci and
                                             b['ver_range'] == (v if v < 1 else enc.version_range(v)) and b['buff'] is st['buff'],
                                             witness=repr((b['ver'], b['ver_range'], b['eci'])), kind='sufficient')
                                    if b['_index'] is not None:
                                        I.oblige(P + '._encode.write_segment_is_next_segment', b['_index'] == st_index(b))
                            cap_t = d['write_terminator']['capacity']
                            capw = iso.data_capacity_bits(v, level)  # for a concrete level; symbolic boosted level below
                            cap_expected = cap_of(v, used, consts)
                            I.oblige(P + '._encode.terminator_capacity_is_capacity_of_used_level', cap_t == cap_expected)
                            I.oblige(P + '._encode.pad_codewords_capacity_is_capacity_of_used_level',
                                     d['write_pad_codewords']['capacity'] == cap_expected)
                            for w in ('write_terminator', 'write_padding_bits', 'write_pad_codewords'):
                                b = d[w]
                                I.oblige(P + '._encode.%s_length_is_len_buff' % w, b['length'] == b['_len_at_call'])
                                I.ground(P + '._encode.%s_buffer' % w, b['buff'] is st['buff'], witness=w, kind='sufficient')
                            I.ground(P + '._encode.terminator_ver', d['write_terminator']['ver'] == ver, witness=repr(d['write_terminator']['ver']), kind='sufficient')
                            I.ground(P + '._encode.padding_version', d['write_padding_bits']['version'] == v and
                                     d['write_pad_codewords']['version'] == v, witness='version', kind='sufficient')
                            b = d['make_final_message']
                            I.ground(P + '._encode.final_message_args', b['version'] == v and b['buff'] is st['buff'], witness=repr(b['version']), kind='sufficient')
                            I.oblige(P + '._encode.final_message_level_is_used_level', b['error'] == used)
                            size = iso.symbol_size(v)
                            b = d['make_matrix']
                            I.ground(P + '._encode.matrix_size', b['width'] == size and b['height'] == size and
                                     b['reserve_regions'] is True and b['add_timing'] is True, witness=repr((b['width'], b['height'])), kind='sufficient')
                            for w in ('add_finder_patterns', 'add_alignment_patterns'):
                                b = d[w]
                                I.ground(P + '._encode.%s_args' % w, b['matrix'] is st['matrix'] and b['width'] == size and b['height'] == size, witness=w, kind='sufficient')
                            b = d['add_codewords']
                            I.ground(P + '._encode.add_codewords_args', b['matrix'] is st['matrix'] and b['codewords'] is st['final'] and b['version'] == v, witness='add_codewords', kind='sufficient')
                            b = d['find_and_apply_best_mask']
                            I.ground(P + '._encode.mask_args', b['matrix'] is st['matrix'] and b['width'] == size and b['height'] == size and b['proposed_mask'] is mask, witness=repr(b['proposed_mask']), kind='sufficient')
                            b = d['add_format_info']
                            I.ground(P + '._encode.format_info_after_masking_on_masked_matrix', b['matrix'] is st['masked'] and
                                     b['version'] == v and b['mask_pattern'] is st['mask_out'], witness=repr((b['version'], b['mask_pattern'])), kind='sufficient')
                            I.oblige(P + '._encode.format_info_level_is_used_level', b['error'] == used)
                            b = d['add_version_info']
                            I.ground(P + '._encode.version_info_args', b['matrix'] is st['masked'] and b['version'] == v, witness=repr(b['version']), kind='sufficient')
                            code = val
                            I.ground(P + '._encode.returns_masked_matrix_version_mask_segments', code.matrix is st['masked'] and
                                     code.version == v and code.mask is st['mask_out'] and code.segments is st['segs'], witness=repr(code.version), kind='sufficient')
                            I.oblige(P + '._encode.returned_level_is_used_level', code.error == used)
                            hdr = st.get('hdr')
                            if hdr is None:
                                I.ground(P + '._encode.header_snapshot', False, witness='segment loop not reached', kind='sufficient')
                            elif sa:
                                num, tot, par = st['sa']
                                fields = ((iso.MODE_SA, 4), (num, 4), (tot, 4), (par, 8))
                                I.oblige(P + '._encode.sa_header_length', hdr.length == 20)
                                pos = 0
                                for val_, width in fields:
                                    for t in range(width):
                                        I.oblige(P + '._encode.sa_header_bits', hdr.at(pos) == (val_ // (1 << (width - 1 - t))) % 2)
                                        pos += 1
                            else:
                                I.oblige(P + '._encode.no_header_without_structured_append', hdr.length == 0)
                        I.replay_spec = dict(fn='replay_glue', version=v)
                        I.explore(thunk, post)


def st_index(b):
    return b['_index']


def cap_of(v, used, consts):
    """capacity of version v at a (possibly symbolic) level constant, from ISO Table 7"""
    from spec.logic import ite
    res = None
    for l in iso.levels_of(v):
        c = iso.data_capacity_bits(v, l)
        if l is None:
            return c
        lc = C.level_const(l)
        res = c if res is None else ite(used == lc, c, res)
    return res
