"""Access to the committed known-findings file from contracts."""
import json
import os

_PATH = os.path.join(os.path.dirname(os.path.dirname(os.path.abspath(__file__))), 'known_findings.json')
_cache = {}


def entries():
    if 'e' not in _cache:
        try:
            with open(_PATH) as f:
                _cache['e'] = json.load(f).get('entries', [])
        except FileNotFoundError:
            _cache['e'] = []
    return _cache['e']


def active(fid):
    """True iff the finding is listed (status finding): the contract then checks the
    per-region disjunction 'ISO postcondition or pinned deviation' plus a probe."""
    for e in entries():
        if e.get('id') == fid and e.get('status', 'finding') == 'finding':
            return True
    return False
