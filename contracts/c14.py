"""C14 - arguments are honoured or refused with ValueError; nothing else escapes.

Deductive part: encode() over the product of documented option domains (including
boundary and malformed values) with symbolic single-part content (all lengths): every
outcome is a call of _encode with a valid (version, level, mask) or a ValueError;
excluded combinations are refused; alternative spellings reach _encode with the same
arguments as the canonical spelling.  encode_sequence argument refusals on concrete
content with the encoder stages summarised.  The no-exception clauses of the stage
contracts (C01.*, C03.*, C13.* ... no_exception / safety obligations) complete the
"nothing else escapes" argument for the library below _encode.
Bounded part (labelled): serialiser argument refusal (colours, scale, border, kind)
and the command line exit status on enumerated argument values.
"""
import io
import itertools
from pyvc.runner import Task
from pyvc.sym import is_sym, s_and, s_or, s_not, SInt
from pyvc.interp import PyRaise
from spec import iso, layout
from . import common as C

MOD = 'contracts.c14'
TRUSTED_BASE = ['pyvc + z3', 'contracts of find_version (C04), prepare_data/make_segment (C01/C07), _encode stages (C01, C03, C13, C06, C02) used as summaries']
ASSUMPTIONS = ['content of the documented types str / bytes / int is a single part (prepare_data returns one segment of any class, or refuses with ValueError)',
               'serialiser and CLI clauses are BOUNDED: enumerated malformed values, not all values']

ERRORS = (None, 'L', 'm', 'Q', 'H', 'x')
VERSIONS = (None, 1, '7', 40, 41, 0, 'M1', 'm2', 'M4', 'M5', 'abc', '0', '-1', -3, '41')      # 0 .. -3 are the library's internal Micro constants: not a documented spelling
MODES = (None, 'byte', 'KANJI', 'nope')
MASKS = (None, -1, 0, '3', 4, 7, 8, 'x')
MICROS = (None, True, False)


def tasks(tier, seed):
    ts = []
    for e in ERRORS:
        for mi in MICROS:
            ts.append(Task('encode.arguments[error=%r,micro=%r]' % (e, mi), MOD, 'task_encode_args', (e, mi), fuc=FUC_ENC, weight=10))
    ts.append(Task('encode.spellings', MOD, 'task_spellings', (), fuc=FUC_ENC))
    ts.append(Task('encode_sequence.mask_arguments', MOD, 'task_sequence_mask_args', (), backend='ground', fuc=['segno.encoder.encode_sequence', 'segno.encoder.normalize_mask']))
    ts.append(Task('encode_sequence.arguments', MOD, 'task_sequence_args', (), backend='ground',
                   fuc=['segno.encoder.encode_sequence', 'segno.encoder.calc_structured_append_parity']))
    for first in COLOUR_ALPHABET + ('',):
        ts.append(Task('colour_strings[%r]' % first, MOD, 'task_colour_strings', (first,), backend='ground', fuc=['segno.writers._color_to_rgba', 'segno.writers._hex_to_rgb_or_rgba'], weight=8))
    ts.append(Task('colour_tuples', 'contracts.c10', 'task_colour_tuples', ('C14',), fuc=['segno.writers._color_to_rgba']))
    for k in range(4):
        ts.append(Task('bounded.serialiser_arguments[%d]' % k, MOD, 'task_bounded_serialisers', (k,), backend='bounded',
                       fuc=['segno.writers._color_to_rgba', 'segno.writers._hex_to_rgb_or_rgba', 'segno.writers._alpha_value',
                            'segno.utils.check_valid_scale', 'segno.utils.check_valid_border', 'segno.writers.save'], weight=20))
    ts.append(Task('bounded.cli_exit_status', MOD, 'task_bounded_cli', (), backend='bounded', fuc=['segno.cli.main'], weight=20))
    return ts


FUC_ENC = ['segno.encoder.encode', 'segno.encoder.normalize_version', 'segno.encoder.normalize_errorlevel', 'segno.encoder.normalize_mode',
           'segno.encoder.normalize_mask', 'segno.encoder.is_mode_supported', 'segno.encoder.get_version_name', 'segno.encoder.get_mode_name']


def canon_version(v):
    """documented meaning of a version argument: None, 1..40 (int or numeric string), 'M1'..'M4' in any case; else invalid"""
    if v is None:
        return None
    if isinstance(v, str) and v.upper() in ('M1', 'M2', 'M3', 'M4'):
        return {'M1': iso.M1, 'M2': iso.M2, 'M3': iso.M3, 'M4': iso.M4}[v.upper()]
    try:
        n = int(v)
    except (TypeError, ValueError):
        return 'invalid'
    return n if 1 <= n <= 40 else 'invalid'


def canon_error(e):
    if e is None:
        return None
    return e.upper() if isinstance(e, str) and e.upper() in iso.LEVELS else 'invalid'


def canon_mode(m):
    if m is None:
        return None
    return m.lower() if isinstance(m, str) and m.lower() in iso.MODES else 'invalid'


def canon_mask(m):
    if m is None:
        return None
    try:
        return int(m)
    except (TypeError, ValueError):
        return 'invalid'


def install_summaries(I, st):
    enc = C.encoder()

    def s_prepare_data(I, clo, args, kwargs):
        b = I.bind_args(clo, args, kwargs)
        st['prepare_mode'] = b['mode']
        # contract of prepare_data / make_segment for single-part content: one segment, or ValueError
        # when the requested mode cannot represent the content (C07)
        if b['mode'] is not None and I.decide(I.fresh_int('mode_not_applicable', 0, 1) == 1):
            raise PyRaise(ValueError('The provided mode is not applicable'))
        segs, parts = C.abstract_segments(I, single=True)
        if b['mode'] is not None:
            # the segment has the requested mode
            for m in iso.MODES:
                if C.mode_const(m) != b['mode']:
                    I.assume(parts.count[m] == 0)
        else:
            I.assume(parts.count[iso.HANZI] == 0)       # hanzi is never chosen automatically (C07.find_mode.never_hanzi)
        st['parts'] = parts
        return segs

    def s__encode(I, clo, args, kwargs):
        return ('ENCODED', I.bind_args(clo, args, kwargs))
    I.summaries['segno.encoder:prepare_data'] = s_prepare_data
    I.summaries['segno.encoder:find_version'] = C.summary_find_version
    I.summaries['segno.encoder:_encode'] = s__encode


def task_encode_args(I, error, micro):
    enc = C.encoder()
    f = I.get_function('segno.encoder', 'encode')
    st = {}
    install_summaries(I, st)
    for version, mode, mask, eci in itertools.product(VERSIONS, MODES, MASKS, (False, True)):
        cv, ce, cm, ck = canon_version(version), canon_error(error), canon_mode(mode), canon_mask(mask)

        def thunk(I):
            st.clear()
            return I.call_function(f, ('<content>',), dict(error=error, version=version, mode=mode, mask=mask, micro=micro, eci=eci))

        def post(I, kind, val):
            args = dict(error=error, version=version, mode=mode, mask=mask, micro=micro, eci=eci)
            if kind == 'raise':
                I.ground('C14.encode.only_ValueError_escapes', isinstance(val, ValueError), witness=dict(args=repr(args), raised=repr(val)))
            invalid = 'invalid' in (cv, ce, cm) or ck == 'invalid'
            micro_v = isinstance(cv, int) and cv < 1
            excluded = (not invalid) and (
                (micro is False and micro_v) or (micro is True and isinstance(cv, int) and not micro_v) or
                (ce == 'H' and (micro or micro_v)) or (eci and (micro or micro_v)) or
                (cm is not None and isinstance(cv, int) and not iso.mode_available(cm, cv)))
            if invalid or excluded:
                I.ground('C14.encode.invalid_or_excluded_arguments_refused_with_ValueError', kind == 'raise' and isinstance(val, ValueError), witness=dict(args=repr(args), outcome=kind, value=repr(val)[:80]))
                return
            if kind != 'return':
                return
            b = val[1]
            ver, err, msk = b['version'], b['error'], b['mask']
            # the symbol parameters handed to _encode are consistent (preconditions of the stages)
            I.oblige('C14.encode.version_in_range', s_and(ver >= iso.M1, ver <= 40))
            if cv is not None:
                I.oblige('C14.encode.requested_version_used', ver == cv)
            lvl_ok = []
            for v in iso.ALL_VERSIONS:
                for lv in iso.levels_of(v):
                    lvl_ok.append(s_and(ver == v, err == C.level_const(lv)) if lv is not None else s_and(ver == v, err is None))
            I.oblige('C14.encode.level_defined_for_version', s_or(*lvl_ok))
            if ck is None:
                I.ground('C14.encode.no_mask_stays_none', msk is None, witness=repr(msk))
            else:
                I.ground('C14.encode.mask_is_normalised_int', isinstance(msk, int) and msk == ck, witness=repr(msk))
                # a mask outside the range of the CHOSEN symbol kind must have been refused
                I.oblige('C14.encode.mask_in_range_for_chosen_version', s_and(msk >= 0, s_or(s_and(ver >= 1, msk < 8), s_and(ver < 1, msk < 4))))
            I.oblige('C14.encode.eci_only_for_qr', s_or(not eci, ver >= 1))
            if ce == 'H':
                I.oblige('C14.encode.no_H_in_micro', ver >= 1)
            I.ground('C14.encode.mode_passed_to_prepare_data', st.get('prepare_mode') == (None if cm is None else C.mode_const(cm)), witness=repr(st.get('prepare_mode')))
        I.replay_spec = dict(fn='replay_encode_args', error=error, version=version, mode=mode, mask=mask, micro=micro, eci=eci)
        I.explore(thunk, post)


def task_spellings(I):
    """alternative spellings reach the stages with the same arguments as the canonical spelling"""
    f = I.get_function('segno.encoder', 'encode')
    st = {}
    install_summaries(I, st)

    def run(**kw):
        out = []
        I.explore(lambda I: I.call_function(f, ('<content>',), kw),
                  lambda I, k, v: out.append((k, None if k != 'return' else (repr(v[1]['version']), v[1]['error'], v[1]['mask']), type(v).__name__ if k == 'raise' else None,
                                              st.get('prepare_mode'))))
        return sorted(out, key=repr)
    pairs = []
    for a, b in (('M2', 'm2'), ('M4', 'm4'), (7, '7'), (40, '40')):
        pairs.append((dict(version=a), dict(version=b), 'version %r / %r' % (a, b)))
    for a, b in (('L', 'l'), ('H', 'h'), ('Q', 'q')):
        pairs.append((dict(error=a, version=5), dict(error=b, version=5), 'error %r / %r' % (a, b)))
    for a, b in (('byte', 'BYTE'), ('kanji', 'Kanji'), ('alphanumeric', 'ALPHANUMERIC')):
        pairs.append((dict(mode=a, version=5), dict(mode=b, version=5), 'mode %r / %r' % (a, b)))
    for a, b in ((3, '3'), (0, '0'), (7, '7')):
        pairs.append((dict(mask=a, version=5), dict(mask=b, version=5), 'mask %r / %r' % (a, b)))
    for ka, kb, label in pairs:
        ra, rb = run(**ka), run(**kb)
        I.ground('C14.encode.alternative_spelling_same_symbol_parameters', ra == rb and any(k == 'return' for k, *_ in ra), witness=dict(case=label, a=repr(ra)[:200], b=repr(rb)[:200]),
                 replay=dict(fn='replay_spelling', a=repr(ka), b=repr(kb)))


def task_sequence_args(I):
    """encode_sequence: documented refusals (Micro version, neither version nor symbol_count, symbol_count outside 1..16,
    content shorter than symbol_count) are ValueErrors; valid calls return 1..16 symbols; nothing else escapes"""
    enc = C.encoder()
    f = I.get_function('segno.encoder', 'encode_sequence')

    def s__encode(I, clo, args, kwargs):
        b = I.bind_args(clo, args, kwargs)
        return enc.Code((), b['version'], b['error'], b['mask'], b['segments'])
    I.summaries['segno.encoder:_encode'] = s__encode
    contents = ['ABCDEFGHIJKLMNOPQRSTUVWXYZ' * 3, 'abc def', '1234567890' * 4, 1234567890123456789, -42, b'raw bytes \xff\x00' * 3, 'A', '', 'é€漢' * 6]
    for content in contents:
        for version in (None, 1, 5, 'M2', 41, 0):
            for count in (None, 0, 1, 2, 16, 17, -1):
                for mode in (None, 'byte'):
                    res = {}
                    I.explore(lambda I: I.call_function(f, (content,), dict(version=version, symbol_count=count, mode=mode)),
                              lambda I, k, v: res.update(kind=k, val=v))
                    args = dict(content=repr(content)[:30], version=version, symbol_count=count, mode=mode)
                    cv = canon_version(version)
                    bad = cv == 'invalid' or (isinstance(cv, int) and cv < 1) or (cv is None and count is None) or (count is not None and not 1 <= count <= 16)
                    if res.get('kind') == 'raise':
                        I.ground('C14.encode_sequence.only_ValueError_escapes', isinstance(res['val'], ValueError),
                                 witness=dict(args=args, raised=repr(res['val'])[:120]), replay=dict(fn='replay_sequence_args', content=repr(content), version=repr(version), count=repr(count), mode=repr(mode)))
                    if bad:
                        I.ground('C14.encode_sequence.documented_refusals', res.get('kind') == 'raise' and isinstance(res['val'], ValueError),
                                 witness=dict(args=args, outcome=res.get('kind')), replay=dict(fn='replay_sequence_args', content=repr(content), version=repr(version), count=repr(count), mode=repr(mode)))
                    elif res.get('kind') == 'return':
                        n = len(res['val'])
                        I.ground('C14.encode_sequence.between_1_and_16_symbols', 1 <= n <= 16, witness=dict(args=args, n=n))
                        if count is not None and version is None:
                            I.ground('C14.encode_sequence.symbol_count_honoured', n == count, witness=dict(args=args, n=n))
                        I.ground('C14.encode_sequence.never_micro', all(c.version >= 1 for c in res['val']), witness=dict(args=args))


def task_sequence_mask_args(I):
    """encode_sequence: the mask argument is validated / normalised on the single-symbol route and on the multi-symbol route alike:
    None, 0..7 and their numeric-string spellings reach every symbol as the integer, everything else is a ValueError"""
    enc = C.encoder()
    f = I.get_function('segno.encoder', 'encode_sequence')

    def s__encode(I, clo, args, kwargs):
        b = I.bind_args(clo, args, kwargs)
        return enc.Code((), b['version'], b['error'], b['mask'], b['segments'])
    I.summaries['segno.encoder:_encode'] = s__encode
    for content, kw in (('ABCD', dict(version=1)), ('A' * 60, dict(version=1)), ('ABCDEFGH', dict(symbol_count=2)), ('ABCD', dict(symbol_count=1))):
        for mask in (None, 0, 3, 7, '3', '0', 8, -1, 'x', '8'):
            res = {}
            I.explore(lambda I: I.call_function(f, (content,), dict(kw, mask=mask)), lambda I, k, v: res.update(kind=k, val=v))
            cm = canon_mask(mask)
            ok_mask = cm is None or (isinstance(cm, int) and not isinstance(mask, float) and 0 <= cm <= 7)
            wit = dict(content=content[:10], kw=kw, mask=repr(mask), outcome=res.get('kind'), value=repr(res.get('val'))[:80])
            rp = dict(fn='replay_sequence_mask', content=content, kw=repr(kw), mask=repr(mask))
            if ok_mask:
                good = res.get('kind') == 'return' and all(c.mask == cm for c in res['val'])
                I.ground('C14.encode_sequence.valid_mask_spelling_reaches_every_symbol_as_the_integer', good, witness=wit, replay=rp)
            else:
                I.ground('C14.encode_sequence.invalid_mask_is_ValueError', res.get('kind') == 'raise' and isinstance(res['val'], ValueError), witness=wit, replay=rp)
    del I.summaries['segno.encoder:_encode']


# ------------------------------------------------------------------ bounded: serialiser arguments
BAD_COLOURS = ['', '#', '#1', '#12', '#12345', '#1234567', '#123456789', '#ggg', 'notacolour', 'rgb(1,2,3)', '#-1-2-3', '#+1+2+3', '# 1 2 3', '+1+2+3', '\u0661\u0662\u0663',
               (1, 2), (1, 2, 3, 4, 5), (256, 0, 0), (-1, 0, 0),
               (0, 0, 0, 256), (0, 0, 0, -1), (0, 0, 0, 1.5), ()]
GOOD_COLOURS = ['black', 'White', '#000', '#fff0', '#FF0000', '#ff000080', (0, 0, 0), (1, 2, 3, 0.5), (1, 2, 3, 128), 'darkblue']


COLOUR_ALPHABET = ('0', '9', 'f', 'F', 'g', '-', '+', ' ', '_', '\u0661', 'x', '#')


def task_colour_strings(I, first):
    """exhaustive over all strings  ['#'] c1 .. cn  (n <= 6, ci from an alphabet of hex digits, a non hex letter, signs, blank, underscore, a non ASCII
    digit, 'x') that start with `first`: the colour parser accepts exactly the hexadecimal forms RGB / RGBA / RRGGBB with their channel values and raises
    ValueError - nothing else - on everything else (int(text, 16) would accept signs, blanks and non ASCII digits)"""
    import itertools
    import segno.writers as W
    hexd = '0123456789abcdefABCDEF'
    n_ok = n_bad = 0
    wrong = []
    bodies = [''] if first == '' else [first + ''.join(t) for n in range(0, 6) for t in itertools.product(COLOUR_ALPHABET, repeat=n)]
    for body in bodies:
        for spell in (body, '#' + body):
            hx = spell[1:] if spell[:1] == '#' else spell         # exactly one leading '#' is the hexadecimal marker
            valid = len(hx) in (3, 4, 6, 8) and all(c in hexd for c in hx)
            try:
                got = W._color_to_rgba(spell, alpha_float=False)
            except ValueError:
                if valid:
                    wrong.append((spell, 'refused'))
                n_bad += 1
                continue
            except Exception as ex:
                wrong.append((spell, repr(ex)))
                continue
            n_ok += 1
            if not valid:
                wrong.append((spell, 'accepted as %r' % (got,)))
            else:
                b = hx if len(hx) > 4 else ''.join(c * 2 for c in hx)
                want = tuple(int(b[i:i + 2], 16) for i in range(0, len(b), 2))
                if len(want) == 3:
                    want += (255,)
                if tuple(got) != want:
                    wrong.append((spell, 'gives %r' % (got,)))
    I.ground('C14.colour_string.accepted_iff_hexadecimal_RGB_RGBA_RRGGBB_else_ValueError', not wrong, witness=dict(first=first, wrong=wrong[:4], checked=2 * len(bodies)),
             replay=dict(fn='replay_colour_string', spell=wrong[0][0] if wrong else '#000'))
    I.ground_pass('C14.colour_string.cover.strings_checked', n_ok + n_bad)


def task_bounded_serialisers(I, k):
    import segno
    kinds = ['png', 'svg', 'eps', 'pdf', 'txt', 'pbm', 'pam', 'ppm', 'xpm', 'xbm', 'tex', 'ans']
    text_kinds = ('txt', 'xpm', 'xbm', 'tex', 'ans', 'eps')
    no_scale = ('txt', 'ans')
    colour_kinds = {'png', 'svg', 'eps', 'pdf', 'pam', 'ppm', 'xpm'}
    qr = segno.make('C14', micro=False)
    my = kinds[k::4]
    for kind in my:
        def save(**kw):
            out = io.StringIO() if kind in text_kinds else io.BytesIO()
            qr.save(out, kind=kind, **kw)
            return out.getvalue()
        rp = dict(fn='replay_serialiser_arg', kind=kind)
        for scale in (0, -1, -0.5):
            if kind not in no_scale:
                _expect_value_error(I, 'C14.bounded.serialiser.non_positive_scale_refused', lambda: save(scale=scale), dict(kind=kind, scale=scale), rp)
        if kind not in ('svg', 'eps', 'pdf', 'tex') + no_scale:
            _expect_value_error(I, 'C14.bounded.serialiser.scale_below_one_refused_by_raster_formats', lambda: save(scale=0.5), dict(kind=kind, scale=0.5), rp)
        for border in (-1, -5, 1.5):
            _expect_value_error(I, 'C14.bounded.serialiser.negative_or_fractional_border_refused', lambda: save(border=border), dict(kind=kind, border=border), rp)
        for ok_kw in ((dict(border=0), dict(border=7)) if kind in no_scale else (dict(scale=1), dict(scale=3, border=0), dict(border=7))):
            _expect_ok(I, 'C14.bounded.serialiser.valid_arguments_accepted', lambda: save(**ok_kw), dict(kind=kind, kw=ok_kw), rp)
        if kind in colour_kinds:
            for c in BAD_COLOURS:
                _expect_value_error(I, 'C14.bounded.serialiser.malformed_colour_refused', lambda: save(dark=c), dict(kind=kind, dark=repr(c)), rp)
                if kind != 'tex':
                    _expect_value_error(I, 'C14.bounded.serialiser.malformed_colour_refused', lambda: save(light=c), dict(kind=kind, light=repr(c)), rp)
            for c in GOOD_COLOURS:
                _expect_ok_or_value_error(I, 'C14.bounded.serialiser.wellformed_colour_accepted_or_ValueError', lambda: save(dark=c), dict(kind=kind, dark=repr(c)), rp)
    if k == 0:
        rp = dict(fn='replay_serialiser_arg', kind='unknown')
        for bad_kind in ('gif', '', 'PNGX', 'jpeg'):
            _expect_value_error(I, 'C14.bounded.serialiser.unknown_kind_refused', lambda: qr.save(io.BytesIO(), kind=bad_kind), dict(kind=bad_kind), rp)
        for good_kind in ('PNG', 'Svg', 'Pdf'):
            _expect_ok(I, 'C14.bounded.serialiser.kind_case_insensitive', lambda: qr.save(io.BytesIO(), kind=good_kind), dict(kind=good_kind), rp)
        _expect_ok(I, 'C14.bounded.serialiser.kind_case_insensitive', lambda: qr.save(io.StringIO(), kind='EPS'), dict(kind='EPS'), rp)


def _expect_value_error(I, name, fn, wit, rp):
    try:
        fn()
        I.ground(name, False, witness=dict(wit, outcome='accepted'), kind='bounded', replay=dict(rp, wit=repr(wit)))
    except ValueError:
        I.ground_pass(name, 1, kind='bounded')
    except Exception as ex:
        I.ground(name, False, witness=dict(wit, outcome=repr(ex)[:120]), kind='bounded', replay=dict(rp, wit=repr(wit)))


def _expect_ok(I, name, fn, wit, rp):
    try:
        fn()
        I.ground_pass(name, 1, kind='bounded')
    except Exception as ex:
        I.ground(name, False, witness=dict(wit, outcome=repr(ex)[:120]), kind='bounded', replay=dict(rp, wit=repr(wit)))


def _expect_ok_or_value_error(I, name, fn, wit, rp):
    try:
        fn()
        I.ground_pass(name, 1, kind='bounded')
    except ValueError:
        I.ground_pass(name, 1, kind='bounded')
    except Exception as ex:
        I.ground(name, False, witness=dict(wit, outcome=repr(ex)[:120]), kind='bounded', replay=dict(rp, wit=repr(wit)))


# ------------------------------------------------------------------ bounded: command line exit status
def task_bounded_cli(I):
    import os
    import subprocess
    import sys
    import tempfile
    from pyvc import extract
    tmp = tempfile.mkdtemp(prefix='c14cli')
    env = dict(os.environ, PYTHONPATH=extract.REPO)
    py = '/venv/bin/python' if os.path.exists('/venv/bin/python') else sys.executable
    try:
        cases = [
            (['--version', 'M1', 'ABC'], 1), (['--error', 'h', '--micro', '123'], 1), (['--version', '41', 'x'], 1),
            (['--pattern', '9', 'x'], 1), (['--mode', 'numeric', 'abc'], 1), (['--version', 'M4', '--error', 'H', '1'], 1),
            (['--version', '1', 'A' * 100], 1),
            (['-o', os.path.join(tmp, 'a.png'), 'ok'], 0), (['-o', os.path.join(tmp, 'a.svg'), '--scale', '2', 'ok'], 0),
            (['--version', 'm2', '-o', os.path.join(tmp, 'm2.txt'), '123'], 0), (['--version', 'M2', '-o', os.path.join(tmp, 'm2b.txt'), '123'], 0),
            (['ok'], 0), (['--seq', '--version', '1', '-o', os.path.join(tmp, 'seq.png'), 'A' * 60], 0),
        ]
        for argv, want in cases:
            p = subprocess.run([py, '-m', 'segno.cli'] + argv, capture_output=True, text=True, env=env, cwd=tmp, timeout=120)
            wit = dict(argv=argv, exit=p.returncode, stderr=p.stderr[-200:])
            rp = dict(fn='replay_cli', argv=repr(argv), want=want)
            if want == 0:
                ok = p.returncode == 0
                out = [a for a in argv if a.startswith(tmp)]
                if out and not argv[0] == '--seq':
                    ok = ok and os.path.exists(out[0]) and os.path.getsize(out[0]) > 0
                I.ground('C14.bounded.cli.exit_0_after_writing_output', ok, witness=wit, kind='bounded', replay=rp)
            else:
                ok = p.returncode == 1 and 'Traceback' not in p.stderr and p.stderr.strip() != ''
                I.ground('C14.bounded.cli.refusal_is_exit_1_with_message_no_traceback', ok, witness=wit, kind='bounded', replay=rp)
    finally:
        import shutil
        shutil.rmtree(tmp, ignore_errors=True)
