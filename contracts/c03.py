"""C03 - Reed-Solomon block layout and correctability.

Functions under contract: make_blocks, make_final_message (incl. to_binary),
Buffer.toints, add_codewords; tables ECC, GEN_POLY, GALIOS_LOG, GALIOS_EXP.

  tables          ground lemmas against spec/gf.py and ISO Table 9 (spec/iso.py)
  toints          cc-sym per capacity: codeword n == sum of its 8 bits (zero filled)
  make_blocks     gf-lin per (version, level): data blocks are the consecutive
                  slices Table 9 prescribes, every block data ++ ec has zero
                  syndromes S_0..S_{ec-1} as GF(256)-linear forms in ALL data bytes
  final message   cc-sym per (version, level): interleaving, M1/M3 half codeword,
                  remainder bits, total length == number of encoding-region modules
  placement       cc-sym per version: bit k of the final message lands on module
                  placement_order[k]; nothing else changes
"""
from pyvc.runner import Task
from pyvc.sym import SInt, is_sym, named_int, Unsupported
from pyvc.values import VBytearray, Obj
from pyvc.gf import GFLin
from spec import iso, layout, gf
from . import common as C

MOD = 'contracts.c03'
TRUSTED_BASE = [
    'pyvc interpreter; gf-lin normaliser (pyvc/gf.py): branch `if coef != 0` merged under the checked condition that every guarded store is a multiple of coef',
    'spec/gf.py: GF(256) from x^8+x^4+x^3+x^2+1; spec/iso.py Table 9 in compact form (derived block sizes, cross-checked by the module count identity)',
    'Reed-Solomon theorem (not re-proved): a code with ec consecutive roots alpha^0..alpha^(ec-1) has minimum distance ec+1, '
    'so a bounded-distance decoder corrects floor(ec/2) codeword errors per block',
]
ASSUMPTIONS = ['data bytes are arbitrary (symbolic) - every data content is covered',
               'the buffer handed to make_final_message holds exactly `capacity` bits (C13.padding.exact_length / fills_capacity; surplus bits are never read: obligation C03.make_blocks.reads_only_capacity)']


def tasks(tier, seed, prefix='C03'):
    ts = []
    if prefix == 'C03':
        ts.append(Task('gf_tables', MOD, 'task_gf_tables', (), backend='ground',
                       fuc=['segno.consts.GALIOS_LOG', 'segno.consts.GALIOS_EXP', 'segno.consts.GEN_POLY']))
        ts.append(Task('ecc_table', MOD, 'task_ecc_table', (), backend='ground', fuc=['segno.consts.ECC']))
        caps = sorted({iso.data_capacity_bits(v, lv) for v in iso.ALL_VERSIONS for lv in iso.levels_of(v)})
        for chunk in range(0, len(caps), 12):
            ts.append(Task('toints[%d..]' % caps[chunk], MOD, 'task_toints', (tuple(caps[chunk:chunk + 12]),), backend='cc-sym',
                           fuc=['segno.encoder.Buffer.toints'], weight=chunk + 1))
        for v in iso.ALL_VERSIONS:
            for lv in iso.levels_of(v):
                ts.append(Task('make_blocks[%s-%s]' % (iso.version_name(v), lv), MOD, 'task_make_blocks', (v, lv), backend='gf-lin',
                               fuc=['segno.encoder.make_blocks'], weight=max(1, v) ** 2))
    for v in iso.ALL_VERSIONS:
        for lv in iso.levels_of(v):
            ts.append(Task('final_message[%s-%s]' % (iso.version_name(v), lv), MOD, 'task_final_message', (prefix, v, lv), backend='cc-sym',
                           fuc=['segno.encoder.make_final_message'], weight=max(1, v)))
        ts.append(Task('placement[%s]' % iso.version_name(v), MOD, 'task_placement', (prefix, v), backend='cc-sym',
                       fuc=['segno.encoder.add_codewords'], weight=max(1, v) * 3))
    if prefix == 'C03':
        # the blocks are built from a data stream padded to the capacity of the level that is also used for the block layout (glue of _encode)
        from . import glue
        ts += glue.glue_tasks('C03')
    return ts


# ------------------------------------------------------------------ ground lemmas
def task_gf_tables(I):
    c = C.consts()
    I.replay_spec = dict(fn='replay_table', table='GALIOS')
    LOGT, EXPT = c.GALIOS_LOG, c.GALIOS_EXP
    # spec field: mul (log/exp) agrees with the carry-less definition on all pairs
    ok = 0
    for a in range(256):
        for b in range(256):
            if gf.mul(a, b) == gf.mul_slow(a, b):
                ok += 1
            else:
                I.ground('C03.spec.gf_mul_is_polynomial_multiplication', False, witness=dict(a=a, b=b))
    I.ground_pass('C03.spec.gf_mul_is_polynomial_multiplication', ok)
    # the real tables: EXP[LOG[c] + g] is the field product c * alpha^g, index in range
    shifts = set()
    for ec, poly in c.GEN_POLY.items():
        shifts.update(poly)
    I.ground('C03.table.gen_poly_exponents_in_range', all(isinstance(g, int) and 0 <= g < 255 for g in shifts), witness=sorted(shifts)[-3:])
    ok = 0
    for cc in range(1, 256):
        lc = LOGT[cc]
        for g in sorted(shifts):
            idx = lc + g
            if isinstance(lc, int) and 0 <= idx < len(EXPT) and EXPT[idx] == gf.mul(cc, gf.alpha_pow(g)):
                ok += 1
            else:
                I.ground('C03.table.exp_log_is_field_multiplication', False,
                         witness=dict(c=cc, g=g, log=lc, got=EXPT[idx] if isinstance(lc, int) and 0 <= idx < len(EXPT) else 'index out of range',
                                      want=gf.mul(cc, gf.alpha_pow(g))))
    I.ground_pass('C03.table.exp_log_is_field_multiplication', ok)
    for i in range(255):
        I.ground('C03.table.EXP_is_alpha_power', EXPT[i] == gf.EXP[i], witness=dict(i=i, got=EXPT[i], want=gf.EXP[i]))
    for x in range(1, 256):
        I.ground('C03.table.LOG_inverse_of_EXP', LOGT[x] == gf.LOG[x], witness=dict(x=x, got=LOGT[x], want=gf.LOG[x]))
    I.replay_spec = dict(fn='replay_table', table='GEN_POLY')
    # generator polynomials: exponents of the coefficients of prod (x - alpha^j)
    needed = sorted({t - d for v in iso.ALL_VERSIONS for lv in iso.levels_of(v) for nb, t, d in iso.block_structure(v, lv)})
    for ec in needed:
        want = [gf.LOG[k] for k in gf.generator_poly(ec)[1:]]
        got = list(c.GEN_POLY.get(ec, ()))
        I.ground('C03.table.GEN_POLY', got == want, witness=dict(ec=ec, got=got, want=want))


def task_ecc_table(I):
    c = C.consts()
    I.replay_spec = dict(fn='replay_table', table='ECC')
    for v in iso.ALL_VERSIONS:
        for lv in iso.levels_of(v):
            got = [(e.num_blocks, e.num_total, e.num_data) for e in c.ECC[v][C.level_const(lv)]]
            want = iso.block_structure(v, lv)
            I.ground('C03.table.ECC_is_ISO_table_9', got == want, witness=dict(version=iso.version_name(v), level=lv, got=got, want=want))
            I.ground('C03.table.shorter_blocks_first', all(a[1] <= b[1] for a, b in zip(got, got[1:])), witness=repr(got))


# ------------------------------------------------------------------ Buffer.toints
def task_toints(I, caps):
    enc = C.encoder()
    f = I.lookup_class_attr(enc.Buffer, 'toints')
    for cap in caps:
        st = {}

        def thunk(I, cap=cap):
            st['bits'] = [named_int('b%d' % k, 0, 1) for k in range(cap)]
            b = Obj(enc.Buffer)
            b.attrs['_data'] = VBytearray(st['bits'])
            return I.iterate(I.call_function(f, (b,), {}))
        res = {}
        I.explore(thunk, lambda I, k, v: res.update(kind=k, val=v))
        I.ground('C03.toints.no_exception', res.get('kind') == 'return', witness=str(type(res.get('val'))))
        if res.get('kind') != 'return':
            continue
        cws = res['val']
        bits = st['bits']
        n = (cap + 7) // 8
        I.ground('C03.toints.count', len(cws) == n, witness=dict(cap=cap, got=len(cws), want=n))
        ok = 0
        for k, cw in enumerate(cws[:n]):
            want = 0
            for t in range(8):
                p = 8 * k + t
                want = want + (bits[p] * (1 << (7 - t)) if p < cap else 0)
            same = (cw == want)
            if same is True:
                ok += 1
            else:
                I.ground('C03.toints.codeword_is_its_8_bits_msb_first', False, witness=dict(cap=cap, codeword=k, got=repr(cw)[:200]))
        I.ground_pass('C03.toints.codeword_is_its_8_bits_msb_first', ok)


# ------------------------------------------------------------------ make_blocks (gf-lin)
def task_make_blocks(I, v, lv):
    enc = C.encoder()
    c = C.consts()
    f = I.get_function('segno.encoder', 'make_blocks')
    structure = iso.block_structure(v, lv)
    n_data = sum(nb * d for nb, t, d in structure)
    ec_infos = c.ECC[v][C.level_const(lv)]
    I.gf_tables = dict(log=c.GALIOS_LOG, exp=c.GALIOS_EXP)
    consumed = []

    def s_toints(I, clo, args, kwargs):
        # contract of Buffer.toints (C03.toints.*): the codewords, here opaque data bytes d_0, d_1, ...
        # (two surplus codewords are offered to detect reads beyond the capacity)
        def gen():
            k = 0
            while k < n_data + 2:
                consumed.append(k)
                yield GFLin.var(k)
                k += 1
        return gen()
    I.summaries['segno.encoder:Buffer.toints'] = s_toints
    res = {}

    def thunk(I):
        del consumed[:]
        b = Obj(enc.Buffer)
        b.attrs['_data'] = VBytearray()
        return I.call_function(f, (ec_infos, b), {})
    I.replay_spec = dict(fn='replay_make_blocks', version=v, level=lv)
    I.explore(thunk, lambda I, k, val: res.update(kind=k, val=val))
    w = dict(version=iso.version_name(v), level=lv)
    I.ground('C03.make_blocks.no_exception', res.get('kind') == 'return', witness=dict(w, outcome=repr(res.get('val'))[:300]))
    if res.get('kind') != 'return':
        return
    data_blocks, error_blocks = res['val']
    shapes = [(t, d) for nb, t, d in structure for _ in range(nb)]
    I.ground('C03.make_blocks.block_count', len(data_blocks) == len(shapes) and len(error_blocks) == len(shapes),
             witness=dict(w, got=(len(data_blocks), len(error_blocks)), want=len(shapes)))
    if len(data_blocks) != len(shapes) or len(error_blocks) != len(shapes):
        return
    I.ground('C03.make_blocks.reads_only_capacity', len(consumed) == n_data, witness=dict(w, consumed=len(consumed), want=n_data))
    off = 0
    for b, (t, d) in enumerate(shapes):
        db, eb = data_blocks[b], error_blocks[b]
        ok = isinstance(db, VBytearray) and len(db.items) == d and all(
            isinstance(x, GFLin) and x.t == {off + i: 1} and x.c == 0 for i, x in enumerate(db.items))
        I.ground('C03.make_blocks.data_block_is_consecutive_slice', ok, witness=dict(w, block=b, offset=off, size=d))
        I.ground('C03.make_blocks.error_block_size', isinstance(eb, VBytearray) and len(eb.items) == t - d,
                 witness=dict(w, block=b, got=len(eb.items) if isinstance(eb, VBytearray) else None, want=t - d))
        if ok and isinstance(eb, VBytearray) and len(eb.items) == t - d:
            cw = list(db.items) + list(eb.items)
            ec = t - d
            zero = 0
            for j in range(ec):
                s = 0
                aj = gf.alpha_pow(j)
                for x in cw:
                    s = (s.scale(aj) if isinstance(s, GFLin) else gf.mul(s, aj)) ^ x
                if isinstance(s, int) and s == 0:
                    zero += 1
                else:
                    # a non-zero form: any data byte with a non-zero coefficient gives a concrete failing block
                    var = next(iter(s.t)) if isinstance(s, GFLin) and s.t else None
                    I.ground('C03.make_blocks.syndrome_is_zero_for_all_data', False,
                             witness=dict(w, block=b, syndrome=j, unit_data_byte=None if var is None else var - off, total=t, data=d))
            I.ground_pass('C03.make_blocks.syndrome_is_zero_for_all_data', zero)
        off += d
    I.ground('C03.make_blocks.gf_shifts_covered_by_table_lemma', all(g in _gen_shifts(c) for g in I.gf_used_shifts),
             witness=sorted(I.gf_used_shifts)[:5])


def _gen_shifts(c):
    s = set()
    for poly in c.GEN_POLY.values():
        s.update(poly)
    return s


# ------------------------------------------------------------------ make_final_message (cc-sym)
def task_final_message(I, prefix, v, lv):
    enc = C.encoder()
    f = I.get_function('segno.encoder', 'make_final_message')
    structure = iso.block_structure(v, lv)
    shapes = [(t, d) for nb, t, d in structure for _ in range(nb)]
    P = prefix

    def s_make_blocks(I, clo, args, kwargs):
        # contract of make_blocks (C03.make_blocks.*): data blocks = consecutive slices, error blocks of ec codewords
        db, eb = [], []
        for b, (t, d) in enumerate(shapes):
            db.append(VBytearray([named_int('d_%d_%d' % (b, i), 0, 255) for i in range(d)]))
            eb.append(VBytearray([named_int('e_%d_%d' % (b, i), 0, 255) for i in range(t - d)]))
        st['db'], st['eb'] = [list(x.items) for x in db], [list(x.items) for x in eb]
        return db, eb
    st = {}
    I.summaries['segno.encoder:make_blocks'] = s_make_blocks
    res = {}

    def thunk(I):
        return I.call_function(f, (v, C.level_const(lv), Obj(enc.Buffer)), {})
    I.replay_spec = dict(fn='replay_final_message', version=v, level=lv)
    I.explore(thunk, lambda I, k, val: res.update(kind=k, val=val))
    w = dict(version=iso.version_name(v), level=lv)
    I.ground(P + '.make_final_message.no_exception', res.get('kind') == 'return', witness=dict(w, outcome=repr(res.get('val'))[:300]))
    if res.get('kind') != 'return':
        return
    out = res['val']
    bits = out.attrs['_data'].items if isinstance(out, Obj) else None
    I.ground(P + '.make_final_message.returns_buffer', bits is not None, witness=w)
    if bits is None:
        return
    # expected bit sequence (ISO 7.6): data codewords interleaved, then ec codewords interleaved, then remainder bits
    want = []
    maxd = max(d for t, d in shapes)
    half = v in (iso.M1, iso.M3)
    for i in range(maxd):
        for b, (t, d) in enumerate(shapes):
            if i < d:
                if half and i == d - 1:
                    continue
                want.append(('d', b, i, 8))
    if half:
        want.append(('d', 0, shapes[0][1] - 1, 4))
    maxe = max(t - d for t, d in shapes)
    for i in range(maxe):
        for b, (t, d) in enumerate(shapes):
            if i < t - d:
                want.append(('e', b, i, 8))
    exp_bits = []
    for kind, b, i, width in want:
        sym_ = (st['db'] if kind == 'd' else st['eb'])[b][i]
        for tbit in range(width):
            if width == 8:
                exp_bits.append((sym_ >> (7 - tbit)) & 1)
            else:
                exp_bits.append((sym_ >> (7 - tbit)) & 1)     # high nibble of the final data codeword
    rem = iso.remainder_bits(v)
    n_modules = iso.raw_data_modules(v) if v >= 1 else iso.micro_data_modules(v)
    I.ground(P + '.make_final_message.length_is_number_of_encoding_region_modules', len(bits) == n_modules,
             witness=dict(w, got=len(bits), want=n_modules))
    I.ground(P + '.make_final_message.spec_length_consistent', len(exp_bits) + rem == n_modules, witness=dict(w, spec=len(exp_bits) + rem, modules=n_modules))
    ok = 0
    for p in range(min(len(bits), len(exp_bits))):
        got, wnt = bits[p], exp_bits[p]
        same = (got == wnt) if is_sym(got) or is_sym(wnt) else (got == wnt)
        if same is True:
            ok += 1
        elif same is False:
            I.ground(P + '.make_final_message.bit_is_interleaved_codeword_bit', False, witness=dict(w, position=p, got=repr(got)[:80], want=repr(wnt)[:80]))
        else:
            # not syntactically equal (bits of one byte written in two ways): ask the solver
            I.explore(lambda I: None,
                      lambda I, k, val2, got=got, wnt=wnt, p=p: I.oblige(
                          P + '.make_final_message.bit_is_interleaved_codeword_bit', got == wnt, note=repr(dict(w, position=p))))
    I.ground_pass(P + '.make_final_message.bit_is_interleaved_codeword_bit', ok)
    tail = bits[len(exp_bits):]
    I.ground(P + '.make_final_message.remainder_bits_zero', len(tail) == rem and all((not is_sym(x)) and x == 0 for x in tail),
             witness=dict(w, tail=repr(tail)[:80], want_count=rem))


# ------------------------------------------------------------------ add_codewords (cc-sym)
def task_placement(I, prefix, v):
    enc = C.encoder()
    P = prefix
    size = iso.symbol_size(v)
    f = I.get_function('segno.encoder', 'add_codewords')
    f_mm = I.get_function('segno.encoder', 'make_matrix')
    f_fp = I.get_function('segno.encoder', 'add_finder_patterns')
    f_ap = I.get_function('segno.encoder', 'add_alignment_patterns')
    order = layout.placement_order(v)
    n = len(order)
    st = {}

    def thunk(I):
        st['bits'] = [named_int('s%d' % k, 0, 1) for k in range(n)]
        bits = st['bits']
        m = I.call_function(f_mm, (size, size), {})
        I.call_function(f_fp, (m, size, size), {})
        I.call_function(f_ap, (m, size, size), {})
        st['before'] = [list(r.items) for r in m]
        b = Obj(enc.Buffer)
        b.attrs['_data'] = VBytearray(bits)
        I.call_function(f, (m, b, v), {})
        return m
    res = {}
    I.replay_spec = dict(fn='replay_placement', version=v)
    I.explore(thunk, lambda I, k, val: res.update(kind=k, val=val))
    w = dict(version=iso.version_name(v))
    I.ground(P + '.add_codewords.no_exception', res.get('kind') == 'return', witness=dict(w, outcome=repr(res.get('val'))[:300]))
    if res.get('kind') != 'return':
        return
    m = res['val']
    bits = st['bits']
    pos = {p: k for k, p in enumerate(order)}
    okp = okf = 0
    for i in range(size):
        row = m[i].items
        brow = st['before'][i]
        for j in range(size):
            k = pos.get((i, j))
            if k is not None:
                if row[j] is bits[k]:
                    okp += 1
                else:
                    I.ground(P + '.add_codewords.module_receives_bit_in_ISO_placement_order', False,
                             witness=dict(w, row=i, col=j, want_bit_index=k, got=repr(row[j])[:60]))
            else:
                if row[j] is brow[j] or ((not is_sym(row[j])) and row[j] == brow[j]):
                    okf += 1
                else:
                    I.ground(P + '.add_codewords.function_modules_untouched', False, witness=dict(w, row=i, col=j, got=repr(row[j])[:60]))
    I.ground_pass(P + '.add_codewords.module_receives_bit_in_ISO_placement_order', okp)
    I.ground_pass(P + '.add_codewords.function_modules_untouched', okf)
