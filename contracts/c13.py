"""C13 - the data bit stream is terminated and padded as ISO 7.4.9/7.4.10 require.

Functions under contract: write_terminator, write_padding_bits, write_pad_codewords
(and Buffer.extend / Buffer.__len__ which they use), for each of the 168
(version, level) combinations with a *symbolic* stream length 0 <= l <= capacity,
i.e. every residue modulo 8 and every distance to capacity.  The buffer content is
a z3 array term; the pad-codeword loop is cut at a quantified loop invariant.
"""
import z3
from pyvc.runner import Task
from pyvc.sym import s_and, s_or, s_not, s_implies, SInt, SBool, fresh_name, _z, zb, QForall, Unsupported
from pyvc.values import Obj, SBits
from pyvc.interp import LoopSpec
from spec import iso
from . import common as C
from . import kf

MOD = 'contracts.c13'
TRUSTED_BASE = ['pyvc symbolic interpreter and VC generator', 'z3 (linear integer arithmetic with div/mod by constants, arrays with lambdas, quantified loop invariant)',
                'spec/iso.py: ISO 7.4.9/7.4.10 stream specification, Table 2 terminator lengths, Table 7 capacities']
ASSUMPTIONS = ['caller obligation: segments end at l <= capacity (C04 fit obligation)',
               'the three writers are called in the order and with len(buff) as _encode does (glue obligations C13._encode.*)']


def tasks(tier, seed):
    ts = [Task('terminator_table', MOD, 'task_table', (), backend='ground', fuc=['segno.consts.TERMINATOR_LENGTH'])]
    for v in iso.ALL_VERSIONS:
        for lv in iso.levels_of(v):
            ts.append(Task('padding[%s-%s]' % (iso.version_name(v), lv), MOD, 'task_padding', (v, lv),
                           fuc=['segno.encoder.write_terminator', 'segno.encoder.write_padding_bits',
                                'segno.encoder.write_pad_codewords', 'segno.encoder.Buffer.extend',
                                'segno.encoder.Buffer.__len__']))
    from . import glue, c03
    ts += glue.glue_tasks('C13')
    ts += [t for t in c03.tasks(tier, seed, prefix='C13') if t.func == 'task_final_message']   # remainder bits
    return ts


def task_table(I):
    c = C.consts()
    for v in iso.ALL_VERSIONS:
        key = None if v >= 1 else v
        I.ground('C13.table.terminator_length', c.TERMINATOR_LENGTH.get(key) == iso.terminator_len(v),
                 witness=dict(version=iso.version_name(v), got=c.TERMINATOR_LENGTH.get(key), want=iso.terminator_len(v)),
                 replay=dict(fn='replay_padding_table', version=v))


def _buffer(I, length):
    enc = C.encoder()
    arr0 = z3.Array('data0', z3.IntSort(), z3.IntSort())
    b = Obj(enc.Buffer)
    b.attrs['_data'] = SBits(arr0, length)
    return b, arr0


def _pad_loop_spec(I_outer):
    """invariant of `for i in range(capacity // 8 - length // 8): write(pad_codewords[i % 2])`"""
    def inv(ctx):
        L = ctx.L
        buf = L['buff'].attrs['_data'].snapshot()
        ent = ctx.entry['__entry_bits']
        k = ctx.k
        l0 = ent.length

        def body(j):
            rel = j - l0
            pad = iso.pad_bit((rel // 8) % 2, rel % 8)
            return s_and(s_implies(s_and(j >= l0, j < l0 + 8 * k), buf.at(j) == pad),
                         s_implies(s_and(j >= 0, j < l0), buf.at(j) == ent.at(j)))
        return [('length', buf.length == ent.length + 8 * k), ('content', QForall(body, 'padloop'))]

    def havoc(ctx):
        buf = ctx.L['buff'].attrs['_data']
        buf.arr = z3.Array(fresh_name('data_h'), z3.IntSort(), z3.IntSort())
        buf.length = ctx.interp.fresh_int('len_h')
    return LoopSpec(inv, havoc)


def task_padding(I, v, lv):
    enc = C.encoder()
    cap = iso.data_capacity_bits(v, lv)
    ver = None if v >= 1 else v
    real_cap = C.consts().SYMBOL_CAPACITY[v][C.level_const(lv)]
    I.ground('C13.capacity_table_cell', real_cap == cap, witness=dict(version=v, level=lv, got=real_cap, want=cap))
    f_term = I.get_function('segno.encoder', 'write_terminator')
    f_padb = I.get_function('segno.encoder', 'write_padding_bits')
    f_padc = I.get_function('segno.encoder', 'write_pad_codewords')
    # every loop of write_pad_codewords appends pad codewords alternately: same invariant
    from pyvc import extract
    n_loops = len(extract.loops_of(f_padc.node))
    if n_loops < 1:
        # the pad loop moved elsewhere (e.g. into a helper): the loop contract does not attach - undecided, not a violation
        raise Unsupported('loop contract does not attach: write_pad_codewords has no loop')
    for o in range(1, n_loops + 1):
        I.loopspecs[('segno.encoder:write_pad_codewords', o)] = _pad_loop_spec(I)
    state = {}

    def thunk(I):
        l = I.fresh_int('stream_len', 0, cap)
        I.inputs['stream_length'] = l
        buff, arr0 = _buffer(I, l)
        state.update(l=l, buff=buff, arr0=arr0)
        # --- the call sequence of _encode (glue: C13._encode.*), each callee checked against its own clause
        I.call_function(f_term, (buff, real_cap, ver, l), {})
        d = buff.attrs['_data']
        l1 = iso.terminated_length(v, lv, l)
        I.oblige('C13.write_terminator.length', d.length == l1)
        I.oblige('C13.write_terminator.bits_zero', _forall_bits(d, l, l1, lambda j: 0))
        I.oblige('C13.write_terminator.frame', _unchanged_below(d, arr0, l))
        d.length = I.abbrev(d.length, 'len1')
        I.call_function(f_padb, (buff, v, d.length), {})
        d = buff.attrs['_data']
        d.length = I.abbrev(d.length, 'len2')
        state['after_padbits'] = d.snapshot()
        # the pad loop invariant refers to the buffer at loop entry
        fr_hook['bits'] = d
        I.call_function(f_padc, (buff, v, real_cap, d.length), {})
        return buff

    fr_hook = {}
    # give the loop invariant access to the buffer at loop entry through the frame snapshot
    for o in range(1, n_loops + 1):
        spec = I.loopspecs[('segno.encoder:write_pad_codewords', o)]

        def inv2(ctx, orig_inv=spec.inv):
            if '__entry_bits' not in ctx.entry:
                ctx.entry['__entry_bits'] = ctx.L['buff'].attrs['_data'].snapshot()
            return orig_inv(ctx)
        spec.inv = inv2

    def post(I, kind, val):
        if kind != 'return':
            I.oblige('C13.padding.no_exception', False, note='raised %r' % (val,))
            return
        l = state['l']
        d = state['buff'].attrs['_data']
        arr0 = state['arr0']
        j = I.fresh_int('j')
        I.inputs['bit_position'] = j
        I.add_index_term(j)
        inside = s_and(j >= l, j < cap)
        want = iso.stream_bit_after_data(v, lv, l, j)
        got = d.at(j)
        l1 = iso.terminated_length(v, lv, l)
        l2 = iso.padded_length(v, lv, l)
        I.oblige('C13.padding.segments_untouched', _unchanged_below(d, arr0, l))
        I.oblige('C13.padding.fills_capacity', d.length >= cap)
        # --- known finding: 8 zero bits are appended when the terminated stream is codeword aligned
        aligned = (l1 % 8 == 0) if v not in (iso.M1, iso.M3) else False
        iso_ok = s_implies(inside, got == want)
        if kf.active('F-C13-aligned-extra-codeword') and aligned is not False:
            # pinned deviation: eight zero bits, then the pad codewords start with 11101100;
            # at l1 == capacity the eight bits lie beyond the capacity (dropped by make_blocks)
            dq = (j - (l1 + 8)) // 8
            dr = (j - (l1 + 8)) % 8
            dev = s_implies(inside, got == iso.ite(j < l1 + 8, 0, iso.pad_bit(dq % 2, dr)))
            dev_len = s_or(s_and(l1 < cap, d.length == cap), s_and(l1 == cap, d.length == cap + 8))
            I.oblige('C13.padding.stream_is_ISO_outside_region', s_implies(s_not(aligned), iso_ok))
            I.oblige('C13.padding.exact_length_outside_region', s_implies(s_not(aligned), d.length == cap))
            I.oblige('C13.padding.in_region_ISO_or_pinned_deviation',
                     s_implies(aligned, s_or(s_and(iso_ok, d.length == cap), s_and(dev, dev_len))))
            I.probe('F-C13-aligned-extra-codeword', s_implies(aligned, s_and(iso_ok, d.length == cap)))
        else:
            I.oblige('C13.padding.stream_is_ISO', iso_ok)
            I.oblige('C13.padding.exact_length', d.length == cap)
    I.replay_spec = dict(fn='replay_padding', version=v, level=lv)
    I.explore(thunk, post)


def _forall_bits(d, lo, hi, f):
    d = d.snapshot()
    return QForall(lambda j: s_implies(s_and(j >= lo, j < hi), d.at(j) == f(j)), 'bits')


def _unchanged_below(d, arr0, l):
    d = d.snapshot()
    a0 = SBits(arr0, l)
    return QForall(lambda j: s_implies(s_and(j >= 0, j < l), d.at(j) == a0.at(j)), 'frame')
