"""C16 - helper factories emit payloads whose fields parse back to the given values.

Deductive part (for ALL string values): the payload builders are executed with every
user supplied value an opaque text token; the result is a rope of literal pieces and
(transformed) tokens.  Obligations: the rope has the documented field structure and
every user value is embedded only through the escape function of the format (MeCard /
WIFI / vCard) resp. percent-encoding (mailto subject / body) - together with the
per-character escape lemmas this gives "no value can forge or terminate a field".
Bounded part (labelled): payloads of the real helpers on an adversarial value grid,
parsed back by the independent parsers of spec/payloads.py; geo formatting; EPC layout,
amount, character set, limits; symbols of the make_* factories.
"""
import io
from pyvc.runner import Task
from pyvc.sym import is_sym
from pyvc import strings as T
from . import common as C
from . import kf

MOD = 'contracts.c16'
TRUSTED_BASE = ['pyvc interpreter with opaque text tokens (pyvc/strings.py)',
                'axiom: str.translate(table) maps every character independently (characters not in the table unchanged)',
                'spec/payloads.py parsers (bounded clauses only)', 'urllib.parse.quote percent-encodes everything outside the unreserved set']
ASSUMPTIONS = ['bounded clauses: adversarial value grid, not all values; EPC, geo and the factory symbols are bounded only']


def tasks(tier, seed):
    ts = [Task('escape_tables', MOD, 'task_escape_tables', (), backend='ground', fuc=['segno.helpers._MECARD_ESCAPE', 'segno.helpers._VCARD_ESCAPE',
                                                                                          'segno.helpers._escape_mecard', 'segno.helpers._escape_vcard']),
          Task('wifi_structure', MOD, 'task_wifi', (), fuc=['segno.helpers.make_wifi_data']),
          Task('mecard_structure', MOD, 'task_mecard', (), fuc=['segno.helpers.make_mecard_data']),
          Task('vcard_structure', MOD, 'task_vcard', (), fuc=['segno.helpers.make_vcard_data']),
          Task('mailto_structure', MOD, 'task_mailto', (), fuc=['segno.helpers.make_make_email_data']),
          Task('factories', MOD, 'task_factories', (), backend='ground',
               fuc=['segno.helpers.make_wifi', 'segno.helpers.make_mecard', 'segno.helpers.make_vcard', 'segno.helpers.make_geo',
                    'segno.helpers.make_email', 'segno.helpers.make_epc_qr'])]
    for k in range(16 if tier == 'quick' else 96):
        ts.append(Task('bounded_payloads[%d]' % k, MOD, 'task_bounded', (seed, k), backend='bounded',
                       fuc=['segno.helpers.*'], weight=20))
    return ts


def helpers():
    from pyvc import extract
    return extract.get_module('segno.helpers').module


# ------------------------------------------------------------------ escape tables (per-character lemmas)
def task_escape_tables(I):
    h = helpers()
    I.replay_spec = dict(fn='replay_escape')
    me = h._MECARD_ESCAPE
    I.ground('C16.escape.mecard_table_escapes_exactly_backslash_semicolon_colon_quote',
             set(me) == {ord(c) for c in '\\;:"'} and all(me[k] == '\\' + chr(k) for k in me), witness=repr(me))
    # per-character lemma (MeCard / WIFI): the image of a character never contains an unescaped ';' and unescapes to the character
    for cp in list(range(0, 0x250)) + [0x2028, 0x1F600]:
        img = chr(cp).translate(me)
        ok = _no_unescaped(img, ';') and _unescape(img) == chr(cp) and (len(img) == 1 or img[0] == '\\')
        I.ground('C16.escape.mecard_image_of_char_has_no_unescaped_semicolon_and_unescapes_to_it', ok, witness=dict(char=cp, image=img))
    vc = h._VCARD_ESCAPE
    for cp in list(range(0, 0x250)) + [0x2028]:
        img = chr(cp).translate(vc)
        # every vCard value must stay on one content line: no CR / LF in the image; ',' and ';' escaped
        ok = ('\r' not in img and '\n' not in img) and (cp not in (ord(','), ord(';')) or img == '\\' + chr(cp))
        I.ground('C16.escape.vcard_image_of_char_stays_on_one_line_and_escapes_separators', ok, witness=dict(char=cp, image=repr(img)))
    for fn, table in (('_escape_mecard', me), ('_escape_vcard', vc)):
        f = I.get_function('segno.helpers', fn)
        I.escape_tables = {id(me): 'mecard', id(vc): 'vcard'}
        res = {}
        tok = T.StrTok('value')
        I.explore(lambda I: I.call_function(f, (tok,), {}), lambda I, k, v: res.update(kind=k, val=v))
        want = ('esc', ('tok', 'value'), 'mecard' if table is me else 'vcard')
        ok = res.get('kind') == 'return' and isinstance(res['val'], T.Rope) and res['val'].key() == (want,)
        I.ground('C16.escape.%s_is_translate_with_its_table' % fn, ok, witness=repr(res.get('val')))


def _no_unescaped(s, ch):
    i = 0
    while i < len(s):
        if s[i] == '\\':
            i += 2
            continue
        if s[i] == ch:
            return False
        i += 1
    return True


def _unescape(s):
    out = []
    i = 0
    while i < len(s):
        if s[i] == '\\' and i + 1 < len(s):
            out.append(s[i + 1])
            i += 2
        else:
            out.append(s[i])
            i += 1
    return ''.join(out)


# ------------------------------------------------------------------ rope helpers
def esc(kind, name):
    return ('esc', ('tok', name), kind)


def run_builder(I, fname, kwargs):
    h = helpers()
    I.escape_tables = {id(h._MECARD_ESCAPE): 'mecard', id(h._VCARD_ESCAPE): 'vcard'}
    from urllib.parse import quote
    I.native_models[quote] = lambda x, *a, **k: T.wrap('quote', x) if T.is_text(x) else quote(x, *a, **k)
    f = I.get_function('segno.helpers', fname)
    outs = []
    I.explore(lambda I: I.call_function(f, (), dict(kwargs)), lambda I, k, v: outs.append((k, v, list(I.quant_log), [str(c) for c in I.pc])))
    return outs


def token_pieces(rope):
    return [p for p in rope.ps if not isinstance(p, str)]


def check_taint(I, prefix, rope, kind, raw_ok=()):
    """every user token occurs only inside the escape of the format"""
    for p in token_pieces(rope):
        for t in p.tokens():
            name = t.name.split('#')[0]
            if name in raw_ok:
                continue
            ok = p.kind == 'esc' and p.args[-1] == kind or (kind == 'quote' and p.kind == 'quote')
            I.ground('%s.value_embedded_only_through_escape.%s' % (prefix, name), ok, witness=dict(piece=repr(p)),
                     replay=dict(fn='replay_helper_escape', builder=prefix.split('.')[1], param=name))


def literal_skeleton(rope):
    """the rope with every token piece replaced by a placeholder naming its parameter"""
    out = []
    for p in rope.ps:
        if isinstance(p, str):
            out.append(p)
        else:
            out.append('{%s}' % ','.join(t.name for t in p.tokens()))
    return ''.join(out)


# ------------------------------------------------------------------ WIFI
def task_wifi(I):
    for hidden in (False, True):
        for with_pw in (True, False):
            kw = dict(ssid=T.StrTok('ssid'), security=T.StrTok('security'), hidden=hidden)
            if with_pw:
                kw['password'] = T.StrTok('password')
            outs = run_builder(I, 'make_wifi_data', kw)
            I.ground('C16.make_wifi_data.paths', len(outs) >= 1 and all(k == 'return' for k, *_ in outs), witness=repr([(k, repr(v)[:80]) for k, v, *_ in outs]))
            for k, rope, log, pc in outs:
                if k != 'return' or not isinstance(rope, T.Rope):
                    continue
                sk = literal_skeleton(rope)
                fields = ['S:{ssid};'] + (['P:{password};'] if with_pw else [])
                tail = 'H:true;' if hidden else ';'
                want_with = 'WIFI:T:{security};' + ''.join(fields) + tail
                want_without = 'WIFI:' + ''.join(fields) + tail
                I.ground('C16.make_wifi_data.field_structure', sk in (want_with, want_without), witness=dict(got=sk, want=[want_with, want_without]),
                         replay=dict(fn='replay_helper_escape', builder='make_wifi_data', param='ssid'))
                check_taint(I, 'C16.make_wifi_data', rope, 'mecard')


# ------------------------------------------------------------------ MeCard
MECARD_SINGLE = ('name', 'reading', 'memo', 'nickname', 'birthday', 'pobox', 'roomno', 'houseno', 'city', 'prefecture', 'zipcode', 'country')
MECARD_MULTI = ('email', 'phone', 'videophone', 'url')


def task_mecard(I):
    kw = {p: T.StrTok(p) for p in MECARD_SINGLE}
    for p in MECARD_MULTI:
        kw[p] = (T.StrTok(p + '#0'), T.StrTok(p + '#1'))
    outs = run_builder(I, 'make_mecard_data', kw)
    I.ground('C16.make_mecard_data.paths', len(outs) >= 1 and all(k == 'return' for k, *_ in outs), witness=repr([(k, repr(v)[:80]) for k, v, *_ in outs][:3]))
    full = None
    for k, rope, log, pc in outs:
        if k != 'return' or not isinstance(rope, T.Rope):
            continue
        check_taint(I, 'C16.make_mecard_data', rope, 'mecard')
        sk = literal_skeleton(rope)
        I.ground('C16.make_mecard_data.starts_with_MECARD_N_and_ends_with_terminator', sk.startswith('MECARD:N:{name};') and sk.endswith(';;'), witness=sk[:60] + '...' + sk[-20:])
        # every field is KEY:{value}; - the only literal text between two values is ';' + the next key + ':' (or ',' inside ADR)
        import re
        fields = sk[len('MECARD:'):-1]
        ok = re.fullmatch(r'(?:[A-Z-]+:(?:\{[^{}]*\})?(?:,(?:\{[^{}]*\})?)*;)+', fields) is not None
        I.ground('C16.make_mecard_data.every_field_is_KEY_value_semicolon', ok, witness=fields[:200])
        if full is None or len(sk) > len(full):
            full = sk
    if full is not None:
        want_keys = {'N': ['name'], 'SOUND': ['reading'], 'NICKNAME': ['nickname'], 'BDAY': ['birthday']}
        import re
        got = re.findall(r'([A-Z-]+):((?:(?:\{[^{}]*\})?,?)+);', full)
        seen = {}
        for key, vals in got:
            seen.setdefault(key, []).append(re.findall(r'\{([^{}]*)\}', vals))
        for key, want in want_keys.items():
            I.ground('C16.make_mecard_data.field_%s_carries_%s' % (key, want[0]), seen.get(key) == [want], witness=repr(seen.get(key)))
        adr = seen.get('ADR')
        I.ground('C16.make_mecard_data.ADR_has_the_seven_address_parts_in_order',
                 adr == [['pobox', 'roomno', 'houseno', 'city', 'prefecture', 'zipcode', 'country']], witness=repr(adr))
        for p in MECARD_MULTI:
            vals = [v for key, vs in seen.items() for v in vs if v and v[0].startswith(p + '#')]
            I.ground('C16.make_mecard_data.multi_valued_%s_one_field_per_value_in_order' % p, vals == [[p + '#0'], [p + '#1']], witness=repr(vals))


# ------------------------------------------------------------------ vCard
VCARD_SINGLE = ('name', 'displayname', 'memo', 'nickname', 'pobox', 'street', 'city', 'region', 'zipcode', 'country', 'org', 'source')
VCARD_MULTI = ('email', 'phone', 'fax', 'videophone', 'url', 'title', 'photo_uri', 'cellphone', 'homephone', 'workphone')


def task_vcard(I):
    kw = {p: T.StrTok(p) for p in VCARD_SINGLE}
    for p in VCARD_MULTI:
        kw[p] = (T.StrTok(p + '#0'), T.StrTok(p + '#1'))
    outs = run_builder(I, 'make_vcard_data', kw)
    I.ground('C16.make_vcard_data.paths', len(outs) >= 1, witness=len(outs))
    import re
    for k, rope, log, pc in outs:
        if k != 'return' or not isinstance(rope, T.Rope):
            continue
        # 'name' is documented as a structured value given by the caller (last;first...): not escaped as a whole
        check_taint(I, 'C16.make_vcard_data', rope, 'vcard', raw_ok=('name',))
        sk = literal_skeleton(rope)
        lines = sk.split('\r\n')
        I.ground('C16.make_vcard_data.begin_version_end', lines[:2] == ['BEGIN:VCARD', 'VERSION:3.0'] and lines[-2:] == ['END:VCARD', ''], witness=repr(lines[:3] + lines[-2:]))
        pat = r'[A-Z]+(?:;[A-Z]+=[A-Za-z]+)*:(?:\{[^{}]*\}|;)+'
        ok = all(re.fullmatch(pat, ln) for ln in lines[2:-2])
        I.ground('C16.make_vcard_data.every_value_on_its_own_content_line', ok, witness=repr([ln for ln in lines[2:-2] if not re.fullmatch(pat, ln)][:3]))


# ------------------------------------------------------------------ mailto
def task_mailto(I):
    for cfg in (dict(to=T.StrTok('to')), dict(to=T.StrTok('to'), subject=T.StrTok('subject'), body=T.StrTok('body')),
                dict(to=T.StrTok('to'), body=T.StrTok('body')), dict(to=T.StrTok('to'), cc=T.StrTok('cc'), bcc=T.StrTok('bcc'), subject=T.StrTok('subject')),
                dict(to=(T.StrTok('to#0'), T.StrTok('to#1')), cc=(T.StrTok('cc#0'), T.StrTok('cc#1')), body=T.StrTok('body'))):
        outs = run_builder(I, 'make_make_email_data', cfg)
        for k, rope, log, pc in outs:
            if k == 'raise':
                I.ground('C16.make_make_email_data.refusal_is_ValueError', isinstance(rope, ValueError), witness=repr(rope))
                continue
            sk = literal_skeleton(rope)
            I.ground('C16.make_make_email_data.starts_with_mailto', sk.startswith('mailto:{'), witness=sk)
            # exactly one '?' introduces the header fields, further fields are joined with '&'
            hdr = sk[len('mailto:'):]
            n_fields = hdr.count('=')          # header fields actually written on this path (empty values are omitted)
            ok = (hdr.count('?') == (1 if n_fields else 0)) and hdr.count('&') == max(0, n_fields - 1) and \
                (not n_fields or hdr.index('?') < hdr.index('='))
            I.ground('C16.make_make_email_data.query_starts_with_question_mark_then_ampersands', ok, witness=dict(cfg=sorted(cfg), got=sk),
                     replay=dict(fn='replay_helper_escape', builder='make_make_email_data', param='body'))
            for p in token_pieces(rope):
                for t in p.tokens():
                    nm = t.name.split('#')[0]
                    if nm in ('subject', 'body'):
                        I.ground('C16.make_make_email_data.%s_is_percent_encoded' % nm, p.kind == 'quote', witness=repr(p),
                                 replay=dict(fn='replay_helper_escape', builder='make_make_email_data', param=nm))


# ------------------------------------------------------------------ factories
def task_factories(I):
    """make_x(args) == segno.make_qr(make_x_data(args)) with the arguments forwarded; EPC: level M, no boosting"""
    import segno
    h = helpers()
    seen = {}

    def s_make_qr(I, clo, args, kwargs):
        seen['make_qr'] = I.bind_args(clo, args, kwargs)
        return 'QR'
    I.summaries['segno:make_qr'] = s_make_qr
    pairs = [('make_wifi', 'make_wifi_data'), ('make_mecard', 'make_mecard_data'), ('make_vcard', 'make_vcard_data'),
             ('make_geo', 'make_geo_data'), ('make_email', 'make_make_email_data')]
    for fac, builder in pairs:
        def s_builder(I, clo, args, kwargs, builder=builder):
            seen['builder'] = I.bind_args(clo, args, kwargs)
            return 'DATA:' + builder
        I.summaries['segno.helpers:' + builder] = s_builder
        f = I.get_function('segno.helpers', fac)
        params = [a.arg for a in f.node.args.args]
        toks = {p: object() for p in params}
        seen.clear()
        res = {}
        I.explore(lambda I: I.call_function(f, (), dict(toks)), lambda I, k, v: res.update(kind=k, val=v))
        ok = res.get('kind') == 'return' and res['val'] == 'QR' and seen.get('make_qr', {}).get('content') == 'DATA:' + builder
        I.ground('C16.%s.is_make_qr_of_its_payload' % fac, ok, witness=repr(res))
        b = seen.get('builder') or {}
        I.ground('C16.%s.forwards_every_argument' % fac, all(b.get(p) is toks[p] for p in params), witness=repr({p: b.get(p) is toks[p] for p in params}))
        del I.summaries['segno.helpers:' + builder]

    def s_epc_data(I, clo, args, kwargs):
        seen['builder'] = I.bind_args(clo, args, kwargs)
        return b'EPC'
    I.summaries['segno.helpers:_make_epc_qr_data'] = s_epc_data

    def s_make_qr2(I, clo, args, kwargs):
        seen['make_qr'] = I.bind_args(clo, args, kwargs)
        from pyvc.values import Obj
        q = Obj(segno.QRCode)
        q.attrs.update(_version=5, _error=0, matrix=(), mask=0, _mode=None, _matrix_size=(37, 37))
        return q
    I.summaries['segno:make_qr'] = s_make_qr2
    f = I.get_function('segno.helpers', 'make_epc_qr')
    params = [a.arg for a in f.node.args.args]
    toks = {p: object() for p in params}
    res = {}
    seen.clear()
    I.explore(lambda I: I.call_function(f, (), dict(toks)), lambda I, k, v: res.update(kind=k, val=v))
    mq = seen.get('make_qr') or {}
    I.ground('C16.make_epc_qr.level_M_without_boosting', res.get('kind') == 'return' and str(mq.get('error')).upper() == 'M' and mq.get('boost_error') is False and
             mq.get('content') == b'EPC', witness=repr(mq))
    b = seen.get('builder') or {}
    I.ground('C16.make_epc_qr.forwards_every_argument', all(b.get(p) is toks[p] for p in params), witness=repr(sorted(b)))
    # 331 bytes in byte mode fit version 13-M: 4 + 16 + 8 * 331 <= capacity
    from spec import iso
    I.ground('C16.make_epc_qr.331_bytes_fit_version_13_M', 4 + iso.cci_len('byte', 13) + 8 * 331 <= iso.data_capacity_bits(13, 'M'),
             witness=dict(need=4 + iso.cci_len('byte', 13) + 8 * 331, cap=iso.data_capacity_bits(13, 'M')))


# ------------------------------------------------------------------ bounded: real payloads parsed back
SPECIALS = ['a;b', 'a\\', 'a\\;b', 'x;TEL:+666', ':', '"q"', 'a,b', 'a:b', 'line1\nline2', 'cr\rlf', 'plain', 'ünï', ' ', ';', '\\\\', 'a\\nb']


def task_bounded(I, seed, k):
    import random
    from segno import helpers as H
    from spec import payloads as P
    rnd = random.Random(seed * 31 + k)
    f_vc = kf.active('F-C16-vcard-linebreaks')

    def val():
        return rnd.choice(SPECIALS)

    def report(name, problems, wit, rp, known=None):
        if not problems:
            I.ground_pass(name, 1, kind='bounded')
        elif known and kf.active(known[0]) and known[1](problems, wit):
            I.ground_pass(name + '_or_pinned_deviation', 1, kind='bounded')
            from .c08 import _probe
            _probe(I, known[0])
        else:
            I.ground(name, False, witness=dict(wit, problems=problems[:3]), kind='bounded', replay=rp)
    n = 40
    for t in range(n):
        which = (k + t) % 6
        if which == 0:
            kw = dict(ssid=val(), password=rnd.choice([None, val()]), security=rnd.choice([None, 'WPA', 'wep', 'nopass']), hidden=rnd.random() < 0.3)
            pl = H.make_wifi_data(**kw)
            probs = [p for p in P.check_wifi(pl, **kw) if 'terminat' not in p.lower()]
            report('C16.bounded.wifi_fields_parse_back', probs, dict(call='make_wifi_data(**%r)' % kw, payload=pl), dict(fn='replay_payload', builder='wifi', kw=repr(kw)))
        elif which == 1:
            kw = dict(name=val())
            for p in ('reading', 'memo', 'nickname', 'city', 'country', 'zipcode'):
                if rnd.random() < 0.5:
                    kw[p] = val()
            for p in ('email', 'phone', 'url'):
                if rnd.random() < 0.5:
                    kw[p] = rnd.choice([val(), [val(), val()], (val(),)])
            pl = H.make_mecard_data(**kw)
            probs = P.check_mecard(pl, key_aliases={'TEL-AV': 'TELAV', 'NOTE': 'MEMO'}, **kw)
            report('C16.bounded.mecard_fields_parse_back', probs, dict(call='make_mecard_data(**%r)' % kw, payload=pl), dict(fn='replay_payload', builder='mecard', kw=repr(kw)),
                   known=('F-C16-mecard-comma-in-address', lambda ps, w: all('ADR' in p for p in ps)))
        elif which == 2:
            kw = dict(name=rnd.choice(['Doe;John', val()]), displayname=val())
            for p in ('memo', 'nickname', 'org', 'city', 'street'):
                if rnd.random() < 0.5:
                    kw[p] = val()
            for p in ('email', 'phone', 'url', 'title'):
                if rnd.random() < 0.5:
                    kw[p] = rnd.choice([val(), [val(), val()]])
            pl = H.make_vcard_data(**kw)
            # the property speaks of content lines only: problems of the parser about components / escapes inside a line are not clauses of it
            import re as _re
            line_problem = _re.compile(r'raw CR/LF inside|content line|is not the (N|FN) property|not terminated by a line break|BEGIN:VCARD|END:VCARD|VERSION|checker error|^line [0-9]+:|first line|last line|second line')
            probs = [p_ for p_ in P.check_vcard(pl, **kw) if line_problem.search(p_.split(' in ')[0][:80])]
            report('C16.bounded.vcard_one_content_line_per_value', probs, dict(call='make_vcard_data(**%r)' % kw, payload=pl), dict(fn='replay_payload', builder='vcard', kw=repr(kw)))
        elif which == 3:
            lat, lng = round(rnd.uniform(-90, 90), rnd.randrange(0, 8)), round(rnd.uniform(-180, 180), rnd.randrange(0, 8))
            if rnd.random() < 0.5:
                # magnitudes that tempt a formatter into exponent notation or into dropping digits: tiny values, whole numbers ending in 0, 8 decimals after 3 integer digits
                lat, lng = rnd.choice([(0.00005, -0.00005), (1e-07, 100.12345678), (-89.99999999, 179.99999999), (51.47789, -5e-05), (0, 0), (40, -120), (0.5, 100.00000001),
                                       (-0.00000001, 0.00000001), (10.0, 100.0), (90, -180)])
            pl = H.make_geo_data(lat, lng)
            report('C16.bounded.geo_uri_carries_the_numbers', P.check_geo(pl, lat, lng), dict(call='make_geo_data(%r, %r)' % (lat, lng), payload=pl), dict(fn='replay_payload', builder='geo', kw=repr(dict(lat=lat, lng=lng))))
        elif which == 4:
            kw = dict(to=rnd.choice(['me@example.org', ['a@example.org', 'b@example.org']]))
            for p in ('subject', 'body'):
                if rnd.random() < 0.6:
                    kw[p] = val()
            if rnd.random() < 0.4:
                kw['cc'] = 'cc@example.org'
            pl = H.make_make_email_data(**kw)
            report('C16.bounded.mailto_is_valid_uri_with_the_texts', P.check_mailto(pl, **kw), dict(call='make_make_email_data(**%r)' % kw, payload=pl), dict(fn='replay_payload', builder='mailto', kw=repr(kw)))
        else:
            import decimal
            enc = rnd.choice([None, 1, 2, 3, 4, 5, 6, 7, 8, 'utf-8', 'ISO-8859-15'])
            amount = rnd.choice([0.01, 1, '1.1', 12.3, decimal.Decimal('999999999.99'), 100, '0.50', 5.0, 1234567.89, 0.29, 4.35,
                                 # range limits from both sides (out of range values have to be refused, not rounded into the range)
                                 0.0051, '0.0099', 0.009, 0, -5, 1000000000, '999999999.991', '999999999.995', decimal.Decimal('0.0051'), '0.010'])
            # lengths on both sides of every documented limit (name 70, IBAN 34, text 140, reference 35, BIC 8 / 11, purpose 4)
            kw = dict(name=rnd.choice(['Wikimedia', 'Fr. Ü', 'x' * 70, 'x' * 71, 'y']), iban=rnd.choice(['DE33100205000001194700', 'D' * 34, 'D' * 35, 'DE33100205000001194700']),
                      amount=amount, encoding=enc)
            if rnd.random() < 0.5:
                kw['text'] = rnd.choice(['Spende', 'a' * 140, 'a' * 141, 'Ünïcode €'])
            else:
                kw['reference'] = rnd.choice(['RF18539007547034', 'R' * 35, 'R' * 36, 'RF18539007547034'])
            if rnd.random() < 0.5:
                kw['bic'] = rnd.choice(['BFSWDE33BER', 'BFSWDE33', 'BFSWDE33B', 'BFSWDE33BER'])
            if rnd.random() < 0.3:
                kw['purpose'] = rnd.choice(['GDDS', 'GDDSX'])     # (shorter codes: the format says "4 characters", the helper insists on exactly 4 - not a clause of the property)
            try:
                pl = H._make_epc_qr_data(**kw)
            except ValueError as ex:
                viol = P.epc_input_violations(**kw)
                enc_issue = isinstance(ex, UnicodeError)        # text not representable in the requested character set
                report('C16.bounded.epc_refuses_only_documented_violations', [] if (viol or enc_issue) else ['refused valid input'], dict(call='_make_epc_qr_data(**%r)' % kw), dict(fn='replay_payload', builder='epc', kw=repr(kw)))
                continue
            except Exception as ex:
                report('C16.bounded.epc_refuses_only_documented_violations', ['raised %r' % (ex,)], dict(call='_make_epc_qr_data(**%r)' % kw), dict(fn='replay_payload', builder='epc', kw=repr(kw)))
                continue
            probs = P.check_epc(pl, **kw)
            report('C16.bounded.epc_layout_amount_charset_size', probs, dict(call='_make_epc_qr_data(**%r)' % kw, payload=repr(pl)[:80]), dict(fn='replay_payload', builder='epc', kw=repr(kw)))
            if t % 5 == 0:
                q = H.make_epc_qr(**kw)
                report('C16.bounded.epc_symbol_level_M_version_le_13', P.check_epc_symbol(q.version, q.error), dict(call='make_epc_qr(**%r)' % kw, designator=q.designator), dict(fn='replay_payload', builder='epc', kw=repr(kw)))
                from spec import qrdecode
                d = qrdecode.decode(q.matrix)
                report('C16.bounded.factory_symbol_decodes_to_payload', [] if d.payload == pl and not d.problems else ['decoded %r' % d.payload[:40]], dict(call='make_epc_qr(**%r)' % kw), dict(fn='replay_payload', builder='epc', kw=repr(kw)))
    if k == 0:
        # EPC size limit from both sides: a payload of exactly 331 bytes is accepted, 332 bytes are refused (multi-byte name, text padded byte by byte)
        base = dict(name='\xe4' * 70, iban='DE33100205000001194700', amount='12.30', bic='BFSWDE33BER', encoding='utf-8')
        try:
            l0 = len(H._make_epc_qr_data(text='x', **base))
            for extra, must_accept in ((331 - l0, True), (332 - l0, False)):
                kw = dict(base, text='x' * (1 + extra))
                ok_len = 1 + extra <= 140
                try:
                    pl = H._make_epc_qr_data(**kw)
                    outcome = len(pl)
                except ValueError:
                    outcome = 'ValueError'
                good = (outcome == 331) if must_accept else (outcome == 'ValueError')
                if must_accept and good:
                    # the largest payload still gives a symbol (level M, version <= 13)
                    try:
                        q_ = H.make_epc_qr(**kw)
                        good = q_.error == 'M' and isinstance(q_.version, int) and q_.version <= 13
                        outcome = '%s for the 331 byte payload' % q_.designator
                    except Exception as ex:
                        good, outcome = False, 'make_epc_qr raised %r for the 331 byte payload' % (ex,)
                report('C16.bounded.epc_payload_of_331_bytes_accepted_332_refused', [] if (good and ok_len) else ['payload of %d bytes: %r' % (l0 + extra, outcome)],
                       dict(call='_make_epc_qr_data(name=70 two-byte characters, text=%d characters, ...)' % (1 + extra)), dict(fn='replay_payload', builder='epc', kw=repr(kw)))
        except Exception as ex:
            report('C16.bounded.epc_payload_of_331_bytes_accepted_332_refused', ['raised %r' % (ex,)], dict(call='EPC size boundary'), dict(fn='replay_payload', builder='epc', kw=repr(base)))
    I.samples = [dict(bounded='helper payloads parsed back', cases=n)]
