"""C06 - requested mask is used; automatic mask minimises the ISO penalty score.

Functions under contract: get_data_mask_functions (fn0..fn7), apply_mask,
find_and_apply_best_mask (incl. is_encoding_region), evaluate_mask, mask_scores,
evaluate_micro_mask, normalize_mask.
"""
import ast
from pyvc.runner import Task
from pyvc.sym import SInt, SBool, is_sym, named_int, s_and, s_or, s_not, s_implies
from pyvc.values import VBytearray, Obj
from pyvc.interp import PyRaise
from pyvc import extract
from spec import iso, layout, penalty
from . import common as C
from . import kf

MOD = 'contracts.c06'
TRUSTED_BASE = ['pyvc interpreter / z3', 'spec/layout.py Table 10 conditions, spec/penalty.py ISO 7.8.3 scores',
                'N4: the two float statements of mask_scores are extracted from the AST and evaluated by CPython for every dark count']
ASSUMPTIONS = ['scores of candidates are integers below sys.maxsize (N1..N4 are bounded by 4*size^2*40)',
               'N1/N2/N3: the ISO scores are specified as left-to-right folds (contracts/c06_scores.py); that the folds equal the declarative scores of spec/penalty.py is validated '
               'exhaustively for lines of up to 14 (thorough: 16) modules and all 4x4 matrices, not proved for every length; induction schema for the no-occurrence lemma is trusted',
               'bytearray.find axiomatised: least match at or after start, -1 if none']


# native stand-ins for obligations that are no longer generated (see pyvc/runner.py): by obligation-name prefix
STANDIN_REPLAY = [('C06.selection.micro', dict(fn='replay_selection', micro=True)), ('C06.selection.', dict(fn='replay_selection', micro=False)),
                  ('find_and_apply_best_mask.', dict(fn='replay_selection', micro=False))]


def tasks(tier, seed):
    ts = [Task('mask_conditions', MOD, 'task_mask_conditions', (), fuc=['segno.encoder.get_data_mask_functions'])]
    for v in iso.ALL_VERSIONS:
        ts.append(Task('apply_mask[%s]' % iso.version_name(v), MOD, 'task_apply_mask', (v,), backend='cc-sym',
                       fuc=['segno.encoder.find_and_apply_best_mask', 'segno.encoder.apply_mask'], weight=max(1, v) * 8))
    ts.append(Task('selection', MOD, 'task_selection', (), fuc=['segno.encoder.find_and_apply_best_mask']))
    ts.append(Task('micro_score', MOD, 'task_micro_score', (), backend='cc-sym', fuc=['segno.encoder.evaluate_micro_mask']))
    for lo in range(21, 178, 20):
        ts.append(Task('n4[%d..]' % lo, MOD, 'task_n4', (lo, min(lo + 20, 178)), backend='ground',
                       fuc=['segno.encoder.mask_scores (N4 statements)'], weight=lo))
    ts.append(Task('normalize_mask', MOD, 'task_normalize_mask', (), backend='ground', fuc=['segno.encoder.normalize_mask']))
    ts.append(Task('evaluate_mask', MOD, 'task_evaluate_mask', (), fuc=['segno.encoder.evaluate_mask']))
    ts.append(Task('mask_scores_loops', 'contracts.c06_scores', 'task_mask_scores_loops', (), fuc=['segno.encoder.mask_scores', 'segno.encoder.mask_scores.n3_pattern_occurrences'], weight=60))
    for lo, hi in ((1, 11), (12, 12), (13, 13), (14, 14)) + (((15, 15), (16, 16)) if tier != 'quick' else ()):
        ts.append(Task('fold_spec[%d..%d]' % (lo, hi), 'contracts.c06_scores', 'task_fold_spec', (lo, hi), backend='ground', fuc=['spec: N1/N2/N3 folds'], weight=2 ** (hi - 8)))
    n = 6 if tier == 'quick' else 40
    for k in range(16):
        ts.append(Task('bounded_scores[%d]' % k, MOD, 'task_bounded_scores', (seed, k, n), backend='bounded',
                       fuc=['segno.encoder.mask_scores'], weight=50))
    for k in range(16):
        ts.append(Task('bounded_selection[%d]' % k, MOD, 'task_bounded_selection', (seed, k, 10 if tier == 'quick' else 80), backend='bounded',
                       fuc=['segno.make', 'segno.encoder.find_and_apply_best_mask', 'segno.encoder._encode'], weight=40))
    # the requested mask reaches every symbol of a sequence (multi-symbol and single-symbol route of encode_sequence)
    ts.append(Task('sequence_options', 'contracts.c08', 'task_sequence_structure', ('alphanumeric', 'C06', True), fuc=['segno.encoder.encode_sequence'], weight=30))
    from . import glue, api
    ts += glue.glue_tasks('C06')
    ts.append(Task('api_wrappers', 'contracts.api', 'task_wrappers', ('C06',), backend='ground', fuc=api.FUC))
    return ts


# ------------------------------------------------------------------ Table 10 conditions, all i, j >= 0
def task_mask_conditions(I):
    f = I.get_function('segno.encoder', 'get_data_mask_functions')
    I.replay_spec = dict(fn='replay_mask_condition')
    for is_micro in (False, True):
        refs = layout.MICRO_MASK_TO_QR if is_micro else tuple(range(8))
        for r in range(6):
            for s in range(6):
                def thunk(I):
                    a = I.fresh_int('a', 0, None)
                    b = I.fresh_int('b', 0, None)
                    I.inputs.update(a=a, b=b)
                    i, j = 6 * a + r, 6 * b + s
                    fns = I.call_function(f, (is_micro,), {})
                    return i, j, fns, [I.call_function(fn, (i, j), {}) for fn in fns]

                def post(I, kind, val):
                    if kind != 'return':
                        I.oblige('C06.mask_condition.no_exception', False, note=repr(val))
                        return
                    i, j, fns, outs = val
                    I.oblige('C06.mask_condition.number_of_patterns', len(fns) == len(refs))
                    for k, (ref, out) in enumerate(zip(refs, outs)):
                        want = layout.mask_condition(ref, i, j)
                        I.oblige('C06.mask_condition.is_ISO_table_10', _beq(out, want),
                                 note='micro=%s pattern=%d i=6a+%d j=6b+%d' % (is_micro, k, r, s))
                I.replay_spec = dict(fn='replay_mask_condition', is_micro=is_micro, r=r, s=s)
                I.explore(thunk, post)


def _beq(a, b):
    """boolean equivalence of two (possibly symbolic) truth values"""
    if not is_sym(a) and not is_sym(b):
        return bool(a) == bool(b)
    return s_and(s_implies(a, b), s_implies(b, a))


# ------------------------------------------------------------------ apply_mask per version and pattern
def task_apply_mask(I, v):
    enc = C.encoder()
    size = iso.symbol_size(v)
    f = I.get_function('segno.encoder', 'find_and_apply_best_mask')
    f_mm = I.get_function('segno.encoder', 'make_matrix')
    f_fp = I.get_function('segno.encoder', 'add_finder_patterns')
    f_ap = I.get_function('segno.encoder', 'add_alignment_patterns')
    fm = layout.function_map(v)
    for mask in range(layout.n_masks(v)):
        st = {}

        def thunk(I):
            m = I.call_function(f_mm, (size, size), {})
            I.call_function(f_fp, (m, size, size), {})
            I.call_function(f_ap, (m, size, size), {})
            cells = {}
            for i in range(size):
                row = m[i].items
                for j in range(size):
                    if fm[(i, j)][0] == layout.DATA:
                        row[j] = cells[(i, j)] = named_int('c_%d_%d' % (i, j), 0, 1)
            st['cells'] = cells
            st['before'] = [list(r.items) for r in m]
            st['in'] = m
            return I.call_function(f, (m, size, size, mask), {})
        res = {}
        I.replay_spec = dict(fn='replay_apply_mask', version=v, mask=mask)
        I.explore(thunk, lambda I, k, val: res.update(kind=k, val=val))
        w = dict(version=iso.version_name(v), mask=mask)
        I.ground('C06.requested_mask.no_exception', res.get('kind') == 'return', witness=dict(w, outcome=repr(res.get('val'))[:200]))
        if res.get('kind') != 'return':
            continue
        ret_mask, out = res['val']
        I.ground('C06.requested_mask.returned_pattern_is_requested', ret_mask == mask, witness=dict(w, got=repr(ret_mask)))
        ok_d = ok_f = 0
        cells, before = st['cells'], st['before']
        for i in range(size):
            row = out[i].items
            for j in range(size):
                got = row[j]
                c = cells.get((i, j))
                if c is not None:
                    cond = layout.mask_condition_for(v, mask, i, j)
                    good = (got is c) if not cond else (isinstance(got, SInt) and (got == 1 - c) is True)
                    if good:
                        ok_d += 1
                    else:
                        I.ground('C06.requested_mask.encoding_region_module_inverted_iff_condition', False,
                                 witness=dict(w, row=i, col=j, condition=cond, got=repr(got)[:60]))
                else:
                    if (not is_sym(got)) and got == before[i][j]:
                        ok_f += 1
                    else:
                        I.ground('C06.requested_mask.function_modules_untouched', False, witness=dict(w, row=i, col=j, got=repr(got)[:60]))
        I.ground_pass('C06.requested_mask.encoding_region_module_inverted_iff_condition', ok_d)
        I.ground_pass('C06.requested_mask.function_modules_untouched', ok_f)


# ------------------------------------------------------------------ selection among the candidates
class _Raw:
    __slots__ = ('pos',)

    def __init__(self, pos):
        self.pos = pos


class _Masked:
    __slots__ = ('pattern', 'raw')

    def __init__(self, pattern, raw):
        self.pattern = pattern
        self.raw = raw


def task_selection(I):
    """find_and_apply_best_mask without a requested mask: apply_mask and the evaluation
    are replaced by contracts (apply_mask: marks the cells of the matrix it is given;
    evaluation: arbitrary symbolic score per candidate)."""
    enc = C.encoder()
    f = I.get_function('segno.encoder', 'find_and_apply_best_mask')
    for size, is_micro in ((21, False), (15, True)):
        n = 4 if is_micro else 8
        st = {}

        def s_apply_mask(I, clo, args, kwargs):
            b = I.bind_args(clo, args, kwargs)
            m = b['matrix']
            k = st['patterns'].index(b['mask_pattern']) if b['mask_pattern'] in st['patterns'] else None
            I.ground('C06.selection.candidate_uses_pattern_of_the_mask_table', k is not None, witness='unknown pattern function')
            fresh = all(isinstance(x, _Raw) for row in m for x in row.items)
            I.ground('C06.selection.every_candidate_is_masked_from_the_unmasked_symbol', fresh,
                     witness=dict(candidate=k, size=size))
            I.ground('C06.selection.candidate_rows_are_copies', all(r is not o for r, o in zip(m, st['in'])), witness=dict(candidate=k))
            for row in m:
                row.items[:] = [_Masked(k, x if isinstance(x, _Raw) else getattr(x, 'raw', None)) for x in row.items]
            st['applied'].append(k)
            return None

        def s_eval(I, clo, args, kwargs):
            b = I.bind_args(clo, args, kwargs)
            m = b['matrix']
            k = m[0].items[0].pattern if isinstance(m[0].items[0], _Masked) else None
            sc = I.fresh_int('score_%s' % k, 0, 2 ** 40)
            st['scores'][k] = sc
            I.inputs['score_%s' % k] = sc
            st['evaluated_by'].append(clo.qualname)
            return sc

        def s_patterns(I, clo, args, kwargs):
            b = I.bind_args(clo, args, kwargs)
            st['patterns'] = tuple(object() for _ in range(4 if b['is_micro'] else 8))
            st['patterns_micro'] = b['is_micro']
            return st['patterns']

        def thunk(I):
            st.update(applied=[], scores={}, evaluated_by=[], patterns=None)
            I.summaries['segno.encoder:apply_mask'] = s_apply_mask
            I.summaries['segno.encoder:evaluate_mask'] = s_eval
            I.summaries['segno.encoder:evaluate_micro_mask'] = s_eval
            I.summaries['segno.encoder:get_data_mask_functions'] = s_patterns
            m = tuple(VBytearray([_Raw((i, j)) for j in range(size)]) for i in range(size))
            st['in'] = m
            return I.call_function(f, (m, size, size), {})

        def post(I, kind, val):
            if kind != 'return':
                I.oblige('C06.selection.no_exception', False, note=repr(val))
                return
            best, out = val
            I.ground('C06.selection.all_candidates_evaluated', st['applied'] == list(range(n)) and len(st['scores']) == n,
                     witness=dict(applied=st['applied']))
            want_eval = 'evaluate_micro_mask' if is_micro else 'evaluate_mask'
            I.ground('C06.selection.evaluation_function', all(q == want_eval for q in st['evaluated_by']) and st['patterns_micro'] is is_micro,
                     witness=dict(got=st['evaluated_by'][:2], want=want_eval))
            if len(st['scores']) != n or not isinstance(best, int):
                I.ground('C06.selection.returns_pattern_index', isinstance(best, int), witness=repr(best))
                return
            sc = st['scores']
            if is_micro:
                I.oblige('C06.selection.micro_maximal_score', s_and(*[sc[best] >= sc[k] for k in range(n)]))
                I.oblige('C06.selection.lowest_numbered_among_best', s_and(*[sc[k] < sc[best] for k in range(best)]))
            else:
                I.oblige('C06.selection.qr_minimal_penalty', s_and(*[sc[best] <= sc[k] for k in range(n)]))
                I.oblige('C06.selection.lowest_numbered_among_best', s_and(*[sc[k] > sc[best] for k in range(best)]))
            good = isinstance(out, tuple) and len(out) == size and all(
                isinstance(x, _Masked) and x.pattern == best and isinstance(x.raw, _Raw) and x.raw.pos == (i, j)
                for i, row in enumerate(out) for j, x in enumerate(row.items))
            I.ground('C06.selection.returned_matrix_is_the_best_candidate', good, witness=dict(best=best))
        I.replay_spec = dict(fn='replay_selection', micro=is_micro)
        I.explore(thunk, post)
        for k in ('apply_mask', 'evaluate_mask', 'evaluate_micro_mask', 'get_data_mask_functions'):
            I.summaries.pop('segno.encoder:' + k, None)


# ------------------------------------------------------------------ Micro QR score
def task_micro_score(I):
    f = I.get_function('segno.encoder', 'evaluate_micro_mask')
    for v in iso.MICRO:
        size = iso.symbol_size(v)

        def thunk(I):
            m = tuple(VBytearray([named_int('c_%d_%d' % (i, j), 0, 1) for j in range(size)]) for i in range(size))
            for row in m:
                for x in row.items:
                    I.assume(s_and(x >= 0, x <= 1) if False else True)
            return m, I.call_function(f, (m, size, size), {})

        def post(I, kind, val):
            if kind != 'return':
                I.oblige('C06.micro_score.no_exception', False, note=repr(val))
                return
            m, got = val
            cells = [[x for x in row.items] for row in m]
            for row in cells:
                for x in row:
                    I.add_pc(x.e >= 0)
                    I.add_pc(x.e <= 1)
            want = _sym_micro_score(cells)
            I.oblige('C06.micro_score.is_ISO_7_8_3_2', got == want)
        I.replay_spec = dict(fn='replay_micro_score', version=v)
        I.explore(thunk, post)


def _sym_micro_score(m):
    from spec.logic import ite
    size = len(m)
    s1 = 0
    s2 = 0
    for i in range(1, size):
        s1 = s1 + m[i][size - 1]
        s2 = s2 + m[size - 1][i]
    return ite(s1 <= s2, s1 * 16 + s2, s2 * 16 + s1)


# ------------------------------------------------------------------ N4 for every dark count of every size
def _n4_statements():
    """the statements of mask_scores that compute score_n4 from dark_module_counter and
    qr_size, extracted mechanically from the AST (everything else of the function is dropped)"""
    mi = extract.get_module('segno.encoder')
    fn = mi.by_qualname['mask_scores']
    stmts = []
    for s in fn.body:
        if isinstance(s, ast.Assign) and len(s.targets) == 1 and isinstance(s.targets[0], ast.Name) and \
                s.targets[0].id in ('percent', 'score_n4'):
            stmts.append(s)
    names = set()
    for s in stmts:
        for n in ast.walk(s.value):
            if isinstance(n, ast.Name):
                names.add(n.id)
    mod = ast.Module(body=stmts, type_ignores=[])
    ast.fix_missing_locations(mod)
    return compile(mod, '<mask_scores N4 statements>', 'exec'), names, [ast.unparse(s) for s in stmts]


def task_n4(I, lo, hi):
    code, names, src = _n4_statements()
    free = names - {'percent', 'float', 'int', 'abs', 'dark_module_counter', 'qr_size'}
    I.ground('C06.n4.extracted_statements_depend_only_on_dark_count_and_size', not free and 'score_n4' in ''.join(src),
             witness=dict(statements=src, free=sorted(free)))
    if free:
        return
    g = {'__builtins__': {'float': float, 'int': int, 'abs': abs}}
    I.samples = [dict(statements=src)]
    for size in range(lo, hi):
        if (size - 17) % 4:
            continue
        ok = 0
        total = size * size
        for dark in range(total + 1):
            env = {'dark_module_counter': dark, 'qr_size': size}
            exec(code, g, env)
            if env['score_n4'] == penalty.n4_from_count(dark, size):
                ok += 1
            else:
                I.ground('C06.n4.equals_10_per_5_percent_deviation', False,
                         witness=dict(size=size, dark=dark, got=env['score_n4'], want=penalty.n4_from_count(dark, size)),
                         replay=dict(fn='replay_n4'))
        I.ground_pass('C06.n4.equals_10_per_5_percent_deviation', ok)


# ------------------------------------------------------------------ normalize_mask, evaluate_mask
def task_normalize_mask(I):
    f = I.get_function('segno.encoder', 'normalize_mask')
    for is_micro in (False, True):
        n = 4 if is_micro else 8
        for arg in list(range(-2, 10)) + [str(k) for k in range(-1, 10)] + [None, 'x', '']:
            res = {}
            I.explore(lambda I: I.call_function(f, (arg, is_micro), {}), lambda I, k, v: res.update(kind=k, val=v))
            try:
                val = None if arg is None else int(arg)
                valid = arg is None or 0 <= val < n
            except ValueError:
                valid, val = False, None
            if valid:
                I.ground('C06.normalize_mask.accepts', res.get('kind') == 'return' and res['val'] == val, witness=dict(arg=repr(arg), micro=is_micro, got=repr(res)))
            else:
                I.ground('C06.normalize_mask.refuses_with_ValueError', res.get('kind') == 'raise' and isinstance(res['val'], ValueError),
                         witness=dict(arg=repr(arg), micro=is_micro, got=repr(res)))


def task_evaluate_mask(I):
    """evaluate_mask is the sum of the four scores of mask_scores"""
    f = I.get_function('segno.encoder', 'evaluate_mask')
    st = {}

    def s_scores(I, clo, args, kwargs):
        st['scores'] = tuple(I.fresh_int('n%d' % k, 0, None) for k in range(1, 5))
        st['args'] = I.bind_args(clo, args, kwargs)
        return st['scores']
    I.summaries['segno.encoder:mask_scores'] = s_scores
    m = object()

    def post(I, kind, val):
        if kind != 'return':
            I.oblige('C06.evaluate_mask.no_exception', False, note=repr(val))
            return
        a, b, c, d = st['scores']
        I.oblige('C06.evaluate_mask.is_N1_plus_N2_plus_N3_plus_N4', val == a + b + c + d)
        I.ground('C06.evaluate_mask.passes_matrix', st['args']['matrix'] is m and st['args']['width'] == 21, witness='args')
    I.explore(lambda I: I.call_function(f, (m, 21, 21), {}), post)
    del I.summaries['segno.encoder:mask_scores']


# ------------------------------------------------------------------ bounded stand-in for N1/N2/N3 (labelled, never counted as proved)
def task_bounded_scores(I, seed, k, n):
    """real mask_scores (native CPython) against spec.penalty on seeded random matrices and
    on matrices with planted 1011101 patterns, every QR size in rotation. BOUNDED."""
    import random
    enc = C.encoder()
    rnd = random.Random(seed * 1000 + k)
    sizes = [17 + 4 * v for v in range(1, 41)]
    finding = kf.active('F-C06-n3-overlap')
    done = 0
    for t in range(n):
        size = sizes[(k * n + t) % len(sizes)]
        dens = rnd.choice((0.5, 0.3, 0.7, 0.5))
        m = [bytearray(1 if rnd.random() < dens else 0 for _ in range(size)) for _ in range(size)]
        for _ in range(rnd.randrange(0, 6)):       # planted patterns, some overlapping / at the edges
            pat = rnd.choice(((1, 0, 1, 1, 1, 0, 1), (1, 0, 1, 1, 1, 0, 1, 0, 1, 1, 1, 0, 1), (0, 0, 0, 0, 1, 0, 1, 1, 1, 0, 1, 0, 0, 0, 0)))
            i = rnd.randrange(size)
            j = rnd.choice((0, size - len(pat), rnd.randrange(0, size - len(pat) + 1)))
            if rnd.random() < 0.5:
                m[i][j:j + len(pat)] = bytes(pat)
            else:
                for d, b in enumerate(pat):
                    m[j + d][i] = b
        got = enc.mask_scores(tuple(m), size, size)
        rows = [list(r) for r in m]
        want = (penalty.n1(rows), penalty.n2(rows), penalty.n3(rows), penalty.n4(rows))
        done += 1
        for idx, nm in ((0, 'n1'), (1, 'n2'), (3, 'n4')):
            I.ground('C06.bounded.mask_scores.%s' % nm, got[idx] == want[idx],
                     witness=dict(size=size, seed=seed, task=k, case=t, got=got[idx], want=want[idx], matrix=[bytes(r).hex() for r in m]),
                     kind='bounded', replay=dict(fn='replay_scores'))
        if got[2] == want[2]:
            I.ground_pass('C06.bounded.mask_scores.n3', 1, kind='bounded')
        else:
            greedy = _n3_greedy(rows)
            if finding and got[2] == greedy and got[2] < want[2]:
                I.ground_pass('C06.bounded.mask_scores.n3_ISO_or_pinned_deviation', 1, kind='bounded')
                rec = I.records.setdefault('kf-probe:F-C06-n3-overlap', __import__('pyvc.interp', fromlist=['ObRecord']).ObRecord('kf-probe:F-C06-n3-overlap', 'probe'))
                rec.instances += 1
                rec.refuted += 1
            else:
                I.ground('C06.bounded.mask_scores.n3', False,
                         witness=dict(size=size, seed=seed, task=k, case=t, got=got[2], want=want[2], matrix=[bytes(r).hex() for r in m]),
                         kind='bounded', replay=dict(fn='replay_scores'))
    I.samples = [dict(bounded='mask_scores vs spec.penalty', cases=done, sizes='all 40 QR sizes in rotation')]


def _n3_greedy(rows):
    """pinned deviation: after a counted occurrence the search resumes 7 modules later"""
    size = len(rows)

    def line(seq):
        s = 0
        p = 0
        n = len(seq)
        while p <= n - 7:
            if tuple(seq[p:p + 7]) == penalty.PATTERN:
                before = seq[max(0, p - 4):p]
                after = seq[p + 7:p + 11]
                if not any(before) or not any(after):
                    s += 40
                    p += 7
                    continue
                p += 4
                continue
            p += 1
        return s
    return sum(line(list(rows[i])) + line([rows[r][i] for r in range(size)]) for i in range(size))


def task_bounded_selection(I, seed, k, n):
    """BOUNDED (labelled): end to end on real symbols made with automatic masking - the pattern found in the symbol is the ISO choice
    (lowest-numbered minimum of N1+N2+N3+N4 over the eight candidates with format and version areas light; Micro QR: maximal edge score)"""
    import random
    from spec import replays
    rnd = random.Random(seed * 3571 + k)
    versions = [iso.M2, iso.M3, iso.M4, 1, 2, 3, 5, 6, 7, 8, 9, 10, 11, 14, 18, 21]
    done = 0
    for t in range(n):
        v = versions[(k + t) % len(versions)]
        alphabet = 'ABCDEFGHIJKLMNOPQRSTUVWXYZ0123456789 $%*+-./:' if rnd.random() < 0.7 else 'abcdefghijklmnopqrstuvwxyz'
        content = ''.join(rnd.choice(alphabet) for _ in range(rnd.randrange(1, 9)))
        kw = dict(version=iso.version_name(v))
        if rnd.random() < 0.3 and v >= 1:
            kw['error'] = rnd.choice('LMQH')
        try:
            probs = replays.selection_problems(content, kw)
        except ValueError:
            continue
        done += 1
        if probs:
            I.ground('C06.bounded.automatic_mask_of_real_symbols_is_the_ISO_choice', False, witness=dict(problem=probs[0]), kind='bounded',
                     replay=dict(fn='replay_selection_end_to_end'))
        else:
            I.ground_pass('C06.bounded.automatic_mask_of_real_symbols_is_the_ISO_choice', 1, kind='bounded')
    I.samples = [dict(bounded='automatic mask of real symbols', symbols=done)]
