"""C05 - error level never below the request; boosting never changes the version.

Functions under contract: boost_error_level, encode (level part), normalize_errorlevel;
the use of the boosted level inside _encode is the glue contract (contracts/glue.py,
obligations C05._encode.*).
"""
from pyvc.runner import Task
from pyvc.sym import s_and, s_or, s_not, s_implies, is_sym, SInt
from spec import iso
from spec.logic import ite, land
from . import common as C

MOD = 'contracts.c05'
TRUSTED_BASE = [
    'pyvc symbolic interpreter and VC generator', 'z3 linear integer arithmetic',
    'spec/iso.py Tables 7/9 (capacities per level), level order L<M<Q<H',
    'multiset abstraction of the segment list (see C04)',
]
ASSUMPTIONS = ['Python int is mathematical', 'Segments representation invariant (proved for add_segment under C01)']
LEVELS = (None, 'L', 'M', 'Q', 'H')


def tasks(tier, seed):
    ts = []
    for v in iso.ALL_VERSIONS:
        ts.append(Task('boost_error_level[v=%s]' % iso.version_name(v), MOD, 'task_boost', (v,),
                       fuc=['segno.encoder.boost_error_level', 'segno.encoder.Segments.bit_length_with_overhead',
                            'segno.encoder.Segments.__len__']))
    for lv in LEVELS:
        for micro in (None, True, False):
            ts.append(Task('encode.level[%s,micro=%s]' % (lv, micro), MOD, 'task_encode_level', (lv, micro),
                           fuc=['segno.encoder.encode', 'segno.encoder.normalize_errorlevel'], weight=10))
    ts.append(Task('normalize_errorlevel', MOD, 'task_normalize_errorlevel', (), backend='ground',
                   fuc=['segno.encoder.normalize_errorlevel']))
    ts.append(Task('level_tables', MOD, 'task_tables', (), backend='ground', fuc=['segno.consts (tables)']))
    ts.append(Task('api_wrappers', 'contracts.api', 'task_wrappers', ('C05',), backend='ground', fuc=__import__('contracts.api', fromlist=['FUC']).FUC))
    from . import glue
    ts += glue.glue_tasks('C05')
    return ts


def spec_boosted_order(v, level, parts, eci, is_sa, single):
    """order index (0..3) of the level C05 prescribes with boosting enabled"""
    base = iso.LEVEL_ORDER[level]
    if level == 'H':
        return base
    need = iso.need_bits(v, parts, eci, is_sa)
    res = base
    for l in iso.levels_of(v):
        if l is None or iso.LEVEL_ORDER[l] <= base:
            continue
        # candidates in increasing order: the last fitting one wins = the highest
        res = ite(need <= iso.data_capacity_bits(v, l), iso.LEVEL_ORDER[l], res)
    return ite(single, res, base)


def task_boost(I, v):
    enc = C.encoder()
    for level in LEVELS:
        if level is not None and level not in iso.levels_of(v):
            continue       # (version, level) pairs that encode() never produces
        if level is None and v != iso.M1:
            continue       # _encode always receives a level except for M1
        for eci in (False, True):
            if eci and v < 1:
                continue
            for is_sa in (False, True):
                if is_sa and v < 1:
                    continue

                def thunk(I):
                    segs, parts = C.abstract_segments(I)
                    I.cur_parts = parts
                    I.cur_segs = segs
                    # caller obligation (C04): the content fits (version, level)
                    if level is not None:
                        I.assume(s_and(iso.modes_available(v, parts),
                                       iso.need_bits(v, parts, eci, is_sa) <= iso.data_capacity_bits(v, level)))
                    f = I.get_function('segno.encoder', 'boost_error_level')
                    return I.call_function(f, (v, C.level_const(level), segs, eci), dict(is_sa=is_sa))

                def post(I, kind, val):
                    if kind != 'return':
                        I.oblige('C05.boost_error_level.no_exception', False, note='raised %r' % (val,))
                        return
                    if level is None:
                        I.oblige('C05.boost_error_level.none_stays_none', val is None)
                        return
                    I.oblige('C05.boost_error_level.returns_level_constant', isinstance(val, int) and not is_sym(val) and
                             C.level_name(val) in iso.levels_of(v))
                    got = iso.LEVEL_ORDER[C.level_name(val)]
                    single = (I.cur_segs.ghost_total == 1)
                    want = spec_boosted_order(v, level, I.cur_parts, eci, is_sa, single)
                    I.oblige('C05.boost_error_level.not_below_request', got >= iso.LEVEL_ORDER[level])
                    I.oblige('C05.boost_error_level.highest_fitting_level', want == got)
                    I.oblige('C05.boost_error_level.no_H_in_micro', not (v < 1 and C.level_name(val) == 'H'))
                    I.oblige('C05.boost_error_level.still_fits',
                             iso.need_bits(v, I.cur_parts, eci, is_sa) <= iso.data_capacity_bits(v, C.level_name(val)))
                I.replay_spec = dict(fn='replay_boost', version=v, level=level, eci=eci, is_sa=is_sa)
                I.explore(thunk, post)


def task_encode_level(I, level, micro):
    """level handling of encode(): default L (none for M1), H refused for Micro,
    level passed on unchanged, boost_error flag and version passed on unchanged."""
    enc = C.encoder()

    def s_prepare_data(I, clo, args, kwargs):
        segs, parts = C.abstract_segments(I)
        I.cur_parts = parts
        return segs

    def s__encode(I, clo, args, kwargs):
        return ('ENCODED', I.bind_args(clo, args, kwargs))
    I.summaries['segno.encoder:prepare_data'] = s_prepare_data
    I.summaries['segno.encoder:find_version'] = C.summary_find_version
    I.summaries['segno.encoder:_encode'] = s__encode
    for req in (None,) + iso.ALL_VERSIONS:
        vname = None if req is None else iso.version_name(req)
        for boost in (True, False):
            for spelled in ((level,) if level is None else (level, level.lower())):
                def thunk(I):
                    f = I.get_function('segno.encoder', 'encode')
                    return I.call_function(f, ('<content>',), dict(error=spelled, version=vname, micro=micro,
                                                                   boost_error=boost))

                def post(I, kind, val):
                    is_micro_v = req is not None and req < 1
                    if level == 'H' and (micro or is_micro_v):
                        I.oblige('C05.encode.H_with_micro_refused', kind == 'raise' and isinstance(val, ValueError)
                                 and not isinstance(val, enc.DataOverflowError), note='%s %r' % (kind, val))
                        return
                    if kind == 'raise':
                        I.oblige('C05.encode.raises_only_ValueError', isinstance(val, ValueError), note=repr(val))
                        return
                    b = val[1]
                    ver = b['version']
                    err = b['error']
                    # default L; none for M1
                    if level is None:
                        I.oblige('C05.encode.default_level', s_or(s_and(ver == iso.M1, err is None),
                                                                  s_and(ver != iso.M1, err == C.level_const('L'))))
                    else:
                        I.oblige('C05.encode.requested_level_passed', err == C.level_const(level))
                        I.oblige('C05.encode.no_level_for_M1', ver != iso.M1)
                    I.oblige('C05.encode.boost_flag_passed', b['boost_error'] is boost)
                    if level == 'H':
                        I.oblige('C05.encode.no_H_in_micro', ver >= 1)
                    # level is defined for the version
                    if level is not None:
                        defined = s_or(*[ver == v for v in iso.ALL_VERSIONS if level in iso.levels_of(v)])
                        I.oblige('C05.encode.level_defined_for_version', defined)
                I.replay_spec = dict(fn='replay_encode_level', level=spelled, micro=micro, version=vname, boost=boost)
                I.explore(thunk, post)


def task_normalize_errorlevel(I):
    f = I.get_function('segno.encoder', 'normalize_errorlevel')
    for name in iso.LEVELS:
        for arg in (name, name.lower(), C.level_const(name)):
            res = {}
            I.explore(lambda I: I.call_function(f, (arg,), {}), lambda I, k, v: res.update(kind=k, val=v))
            I.ground('C05.normalize_errorlevel.spellings', res.get('kind') == 'return' and res['val'] == C.level_const(name),
                     witness=dict(arg=repr(arg), got=repr(res)))
    for arg in ('x', '', 'LL', 4, -1, 'low'):
        res = {}
        I.explore(lambda I: I.call_function(f, (arg,), {}), lambda I, k, v: res.update(kind=k, val=v))
        I.ground('C05.normalize_errorlevel.refuses', res.get('kind') == 'raise' and isinstance(res['val'], ValueError),
                 witness=dict(arg=repr(arg), got=repr(res)))
    res = {}
    I.explore(lambda I: I.call_function(f, (None,), dict(accept_none=True)), lambda I, k, v: res.update(kind=k, val=v))
    I.ground('C05.normalize_errorlevel.none', res.get('kind') == 'return' and res['val'] is None, witness=repr(res))


def task_tables(I):
    c = C.consts()
    # ISO Table 12 level indicators are what segno uses as level constants (format information, C02)
    for name in iso.LEVELS:
        I.ground('C05.table.level_constants_are_ISO_indicator_bits', c.ERROR_MAPPING[name] == iso.LEVEL_BITS[name],
                 witness=dict(level=name, got=c.ERROR_MAPPING[name], want=iso.LEVEL_BITS[name]))
    # capacity decreases with the level (justifies "stop at the first level that does not fit")
    for v in iso.ALL_VERSIONS:
        lv = [l for l in iso.levels_of(v) if l is not None]
        caps = [iso.data_capacity_bits(v, l) for l in lv]
        I.ground('C05.table.capacity_decreasing_in_level', all(a > b for a, b in zip(caps, caps[1:])),
                 witness=dict(version=iso.version_name(v), caps=caps))
