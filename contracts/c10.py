"""C10 - vector outputs (SVG, EPS, PDF, LaTeX) paint exactly the dark modules.

Deductive kernel: utils.matrix_to_lines for a matrix with ANY number of rows of ANY
width (symbolic), by loop invariants with a ghost cover count: every dark module is
covered by exactly one yielded segment, no light module is covered, segments are
well-formed horizontal runs on their row.
Bounded (labelled): the documents written by write_svg / write_eps / write_pdf /
write_tex are read back by the independent readers of spec/readers_vector.py
(page size, scale transform, covered cells == dark modules, colours, PDF /Length
and xref offsets) on an enumerated / seeded grid.
"""
import io
import random
import z3
from pyvc.runner import Task
from pyvc.sym import SInt, s_and, s_or, s_not, s_implies, s_ite, QForall, fresh_name, _z, is_sym
from pyvc.values import SSeq, OpaqueSeq
from pyvc.interp import LoopSpec
from spec import iso
from . import kf

MOD = 'contracts.c10'
LEVEL = 'proof'
TRUSTED_BASE = ['pyvc + z3 (kernel)', 'spec/readers_vector.py independent SVG / EPS / PDF / PGF readers (bounded clauses)']
ASSUMPTIONS = ['kernel precondition from the call sites: the first module of the first row is dark (every symbol starts with a finder pattern)',
               'document-level clauses are BOUNDED: enumerated / seeded grid of symbols x scale x border x colours x options']
VECTOR = ('svg', 'eps', 'pdf', 'tex')


def tasks(tier, seed):
    ts = [Task('matrix_to_lines', MOD, 'task_matrix_to_lines', (), fuc=['segno.utils.matrix_to_lines']),
          Task('colour_values', MOD, 'task_colour_values', (), backend='ground',
               fuc=['segno.writers._color_to_rgba', 'segno.writers._color_to_rgb_or_rgba', 'segno.writers._hex_to_rgb_or_rgba', 'segno.writers._alpha_value',
                    'segno.writers._color_to_webcolor', 'segno.writers._NAME2RGB']),
          Task('colour_tuples', MOD, 'task_colour_tuples', (), fuc=['segno.writers._color_to_rgba'])]
    n = 6 if tier == 'quick' else 25
    for k in range(16):
        ts.append(Task('bounded_vector[%d]' % k, MOD, 'task_bounded_vector', (seed, k, n), backend='bounded',
                       fuc=['segno.writers.write_svg', 'segno.writers.write_eps', 'segno.writers.write_pdf', 'segno.writers.write_tex',
                            'segno.writers._color_to_webcolor'], weight=30))
    return ts


# ------------------------------------------------------------------ kernel: matrix_to_lines
def task_matrix_to_lines(I):
    f = I.get_function('segno.utils', 'matrix_to_lines')
    st = {}

    class Rows(OpaqueSeq):
        """matrix of symbolic height whose rows are arbitrary bit sequences of symbolic width"""

        def at(self, k):
            row = SSeq.fresh('row', length=st['width'], elem_lo=0, elem_hi=1)
            st['row'] = row
            st['row_index'] = k
            st['cnt'] = z3.K(z3.IntSort(), z3.IntVal(0))
            # call-site precondition: the first module of the symbol is dark (finder pattern)
            from pyvc.values import cur
            cur().assume(s_implies(k == 0, row.raw_abs(row.off) == 1))
            return row

    def on_yield(I, value):
        # ghost: cover count of the current row
        (xa, ya), (xb, yb) = value
        x0 = st['x']
        a, b = xa - x0, xb - x0
        I.oblige('C10.matrix_to_lines.segment_is_horizontal_on_the_current_row', s_and(ya == yb, ya == st['y0'] + st['row_index'] * st['incby']))
        I.oblige('C10.matrix_to_lines.segment_is_nonempty_and_inside_the_row', s_and(a >= 0, a < b, b <= st['width']))
        j = z3.Int(fresh_name('t'))
        st['cnt'] = z3.Lambda([j], z3.If(z3.And(j >= _z(a), j < _z(b)), z3.Select(st['cnt'], j) + 1, z3.Select(st['cnt'], j)))

    def cnt_at(t):
        return SInt(z3.Select(st['cnt'], _z(t)))

    # outer loop: rows
    def inv_outer(ctx):
        k = ctx.k
        L = ctx.L
        return [('last_bit_light_after_first_row', L['last_bit'] == s_ite(k == 0, 1, 0)),
                ('y_of_previous_row', L['y'] == st['y0'] - st['incby'] + k * st['incby'])]

    def havoc_outer(ctx):
        pass

    # inner loop: modules of the row
    def inv_inner(ctx):
        j = ctx.k
        L = ctx.L
        row = st['row']
        x0 = st['x']
        x1, x2, last = L['x1'], L['x2'], L['last_bit']
        a = x1 - x0
        cnt = st['cnt']

        def c_at(t):
            return SInt(z3.Select(cnt, _z(t)))
        dark_case = s_and(a >= 0, a <= j, s_implies(j > 0, a < j),
                          QForall(lambda t: s_implies(s_and(t >= a, t < j), row.raw_abs(row.off + t) == 1), 'stretch_dark'),
                          QForall(lambda t: s_implies(s_and(t >= 0, t < a), c_at(t) == row.raw_abs(row.off + t)), 'covered_before'),
                          QForall(lambda t: s_implies(t >= a, c_at(t) == 0), 'nothing_after')) if False else None
        clauses = [('x2_is_position', x2 == x0 + j), ('last_bit_is_bit', s_or(last == 0, last == 1))]
        clauses.append(('run_start', s_ite(last == 1, s_and(a >= 0, a <= j, s_implies(j > 0, a < j)), x1 == x2)))
        clauses.append(('open_run_is_dark', QForall(lambda t: s_implies(s_and(last == 1, t >= a, t < j), row.raw_abs(row.off + t) == 1), 'open_run')))
        clauses.append(('closed_part_covered_exactly', QForall(
            lambda t: s_implies(s_and(t >= 0, t < s_ite(last == 1, a, j)), c_at(t) == row.raw_abs(row.off + t)), 'closed_part')))
        clauses.append(('nothing_covered_beyond', QForall(lambda t: s_implies(t >= s_ite(last == 1, a, j), c_at(t) == 0), 'beyond')))
        clauses.append(('nothing_covered_left_of_the_row', QForall(lambda t: s_implies(t < 0, c_at(t) == 0), 'left')))
        clauses.append(('first_row_starts_dark', s_implies(s_and(st['row_index'] == 0, j == 0), last == 1)))
        clauses.append(('later_rows_start_light', s_implies(s_and(st['row_index'] > 0, j == 0), last == 0)))
        return clauses

    def havoc_inner(ctx):
        st['cnt'] = z3.Array(fresh_name('cnt_h'), z3.IntSort(), z3.IntSort())

    def after_row(ctx):
        # all modules of the row: covered exactly once iff dark
        row = st['row']
        w = st['width']
        cnt = st['cnt']
        return [('C10.matrix_to_lines.every_dark_module_covered_once_no_light_module',
                 QForall(lambda t: s_implies(s_and(t >= 0, t < w), SInt(z3.Select(cnt, _z(t))) == row.raw_abs(row.off + t)), 'row_cover')),
                ('C10.matrix_to_lines.nothing_outside_the_row', QForall(lambda t: s_implies(s_or(t < 0, t >= w), SInt(z3.Select(cnt, _z(t))) == 0), 'outside'))]
    I.loopspecs[('segno.utils:matrix_to_lines', 1)] = LoopSpec(inv_outer, havoc_outer)
    I.loopspecs[('segno.utils:matrix_to_lines', 2)] = LoopSpec(inv_inner, havoc_inner)
    I.loopspecs[('segno.utils:matrix_to_lines', 1)].after_body = after_row
    I.yield_hook = on_yield

    def thunk(I):
        st.clear()
        st['width'] = I.fresh_int('width', 1, None)
        st['x'] = I.fresh_int('x')
        st['y0'] = I.fresh_int('y')
        st['incby'] = I.fresh_int('incby')
        st['cnt'] = z3.K(z3.IntSort(), z3.IntVal(0))
        st['row_index'] = 0
        I.inputs.update(width=st['width'])
        rows = Rows('matrix', I.fresh_int('height', 1, None))
        return I.call_function(f, (rows, st['x'], st['y0'], st['incby']), {})

    def post(I, kind, val):
        if kind != 'return':
            I.oblige('C10.matrix_to_lines.no_exception', False, note=repr(val))
    I.replay_spec = dict(fn='replay_matrix_to_lines')
    I.explore(thunk, post)
    I.yield_hook = None


# ------------------------------------------------------------------ bounded: documents read back
SCALES = (1, 2, 2.5, 10, 0.5, 3.3, 0.75, 1.5)
COLOURS = [({}, None, None), (dict(dark='darkblue', light='#eeeeee'), (0, 0, 139), (238, 238, 238)), (dict(dark='#00ccd7'), (0, 204, 215), None),
           (dict(dark=(0, 0, 139), light='yellow'), (0, 0, 139), (255, 255, 0)), (dict(dark='navy'), (0, 0, 128), None), (dict(dark='#ffff01', light='black'), (255, 255, 1), (0, 0, 0)),
           # a light colour with the default / an explicit black dark colour: the modules must still be stroked in black
           (dict(light='yellow'), (0, 0, 0), (255, 255, 0)), (dict(dark='black', light='#eeeeee'), (0, 0, 0), (238, 238, 238)), (dict(dark='#000', light='white'), (0, 0, 0), (255, 255, 255))]
SVG_OPTS = [{}, dict(unit='mm'), dict(omitsize=True), dict(svgversion=1.1), dict(xmldecl=False, svgns=False, nl=False), dict(title='a<b>&"c', desc='d'),
            dict(svgclass='s', lineclass='l', svgid='i'), dict(draw_transparent=True)]


def task_bounded_vector(I, seed, k, n):
    from spec import readers_vector as RV
    from .c09 import symbols
    rnd = random.Random(seed * 613 + k)
    syms = [q for q, adv in symbols(rnd) if not adv][:8]
    # symbols with an all-light module row exercise vertical pen movement over more than one row
    import segno
    syms += [segno.make('1', micro=False), segno.make_micro('19')]
    done = 0
    for t in range(n):
        for qr in syms:
            kind = VECTOR[(k + t + done) % 4]
            scale = SCALES[(k + done) % len(SCALES)]
            border = rnd.choice((None, 0, 1, 4))
            ckw, dark, light = COLOURS[rnd.randrange(len(COLOURS))]
            if kind == 'tex':
                ckw = {kk: vv for kk, vv in ckw.items() if kk == 'dark' and isinstance(vv, str) and not vv.startswith('#')}
                light = None
                dark = dark if ckw else None
            opts = dict(SVG_OPTS[rnd.randrange(len(SVG_OPTS))]) if kind == 'svg' else {}
            if kind == 'tex' and rnd.random() < 0.6:
                opts['unit'] = rnd.choice(('mm', 'cm', 'pt', 'in'))
            if kind == 'pdf' and rnd.random() < 0.3:
                opts['compresslevel'] = 0
            done += 1
            _one(I, RV, qr, kind, scale, border, ckw, dark, light, opts)
    I.samples = [dict(bounded='vector documents read back', documents=done, kinds=list(VECTOR))]


def _one(I, RV, qr, kind, scale, border, ckw, dark, light, opts):
    from .c09 import _iso_version
    wit = dict(symbol=qr.designator, kind=kind, scale=scale, border=border, colours=repr(ckw), opts=opts)
    rp = dict(fn='replay_vector', designator=qr.designator, version=_iso_version(qr), kind=kind, scale=scale, border=border, ckw=repr(ckw), opts=repr(opts),
              matrix=[bytes(r).hex() for r in qr.matrix])
    name = 'C10.bounded.%s.document_paints_exactly_the_dark_modules' % kind
    try:
        out = io.StringIO() if kind in ('tex', 'eps') else io.BytesIO()
        qr.save(out, kind=kind, scale=scale, border=border, **ckw, **opts)
        data = out.getvalue()
        vec = {'svg': RV.read_svg, 'eps': RV.read_eps, 'pdf': RV.read_pdf, 'tex': RV.read_tikz}[kind](data)
        b = border if border is not None else (2 if qr.is_micro else 4)
        lt = light
        probs = RV.check_modules([list(r) for r in qr.matrix], vec, scale, b, dark=dark, light=lt)
        if opts.get('omitsize'):
            probs = [p for p in probs if 'page' not in p.lower() or 'cover' in p.lower()]
        if kind == 'tex':
            # the PGF picture is written in the requested unit (default pt)
            want_unit = opts.get('unit') or 'pt'
            if vec.info.get('unit') != want_unit or vec.info.get('units'):
                probs.append('coordinates use unit %r (%r), requested %r' % (vec.info.get('unit'), vec.info.get('units'), want_unit))
        if kind == 'svg' and 'title' in opts:
            if (vec.info.get('title'), vec.info.get('desc')) != (opts['title'], opts['desc']):
                probs.append('title / desc %r, expected %r' % ((vec.info.get('title'), vec.info.get('desc')), (opts['title'], opts['desc'])))
    except Exception as ex:
        probs = ['raised %r' % (ex,)]
    if not probs:
        I.ground_pass(name, 1, kind='bounded')
        return
    for fid, pred in PINNED:
        if kf.active(fid) and all(pred(p, wit) for p in probs):
            I.ground_pass(name + '_or_pinned_deviation', 1, kind='bounded')
            from .c08 import _probe
            _probe(I, fid)
            return
    I.ground(name, False, witness=dict(wit, problems=probs[:4]), kind='bounded', replay=rp)


PINNED = [
    ('F-C10-pdf-info-object-endofbj', lambda p, w: w['kind'] == 'pdf' and 'endofbj' in p),
]


# ------------------------------------------------------------------ colour values ("in the requested colour"): exhaustive lemmas over the finite domains
def task_colour_values(I):
    """the colour a document names is the colour that was requested: alpha values 0..255 (all), #RGB (all 4096), #RRGGBB / #RRGGBBAA (every channel value),
    every colour name against the independent SVG / CSS table, and the web colour written for a tuple parses back to the tuple"""
    import segno.writers as W
    from spec import readers_vector as RV
    rp = dict(fn='replay_colour_values')
    def alpha(v, as_float):
        try:
            return W._alpha_value(v, as_float)
        except Exception as ex:
            return repr(ex)
    for a in range(256):
        got = alpha(a, True)
        I.ground('C10.colour.alpha_0_255_as_float_is_a_over_255', isinstance(got, float) and abs(got - a / 255.0) <= 0.005, witness=dict(alpha=a, got=got, want=round(a / 255.0, 4)), replay=rp)
        I.ground('C10.colour.alpha_0_255_as_int_is_unchanged', alpha(a, False) == a, witness=dict(alpha=a, got=alpha(a, False)), replay=rp)
    for k in range(101):
        f = k / 100.0
        I.ground('C10.colour.alpha_float_is_unchanged_resp_times_255', alpha(f, True) == f and alpha(f, False) == int(round(f * 255.0)), witness=dict(alpha=f, got=(alpha(f, True), alpha(f, False))), replay=rp)
    hexd = '0123456789abcdef'
    bad = None
    for r in range(16):
        for g in range(16):
            for b in range(16):
                for spell in ('#' + hexd[r] + hexd[g] + hexd[b], ('#' + hexd[r] + hexd[g] + hexd[b]).upper()):
                    if tuple(W._color_to_rgb(spell)) != (17 * r, 17 * g, 17 * b):
                        bad = spell
    I.ground('C10.colour.hex_RGB_is_each_digit_doubled', bad is None, witness=bad, replay=rp)
    bad = None
    for ch in range(3):
        for v in range(256):
            vals = [0x12, 0xab, 0x5f]
            vals[ch] = v
            spell = '#%02x%02x%02x' % tuple(vals)
            if tuple(W._color_to_rgb(spell)) != tuple(vals) or tuple(W._color_to_rgb(spell.upper())) != tuple(vals):
                bad = spell
            got = W._color_to_rgba(spell + '%02x' % v, alpha_float=False)
            if tuple(got) != tuple(vals) + (v,):
                bad = spell + '%02x' % v
    I.ground('C10.colour.hex_RRGGBB_and_RRGGBBAA_are_the_channel_values', bad is None, witness=bad, replay=rp)
    names = dict(RV.SVG_COLORS)
    wrong = [(n, W._NAME2RGB.get(n), v) for n, v in names.items() if n in W._NAME2RGB and tuple(W._NAME2RGB[n]) != tuple(v)]
    unknown = [n for n in W._NAME2RGB if n not in names]
    I.ground('C10.colour.names_have_the_SVG_CSS_values', not wrong and not unknown, witness=dict(wrong=wrong[:3], not_css=unknown[:3]), replay=rp)
    I.ground('C10.colour.all_147_SVG_names_known', all(n in W._NAME2RGB for n in names if n != 'rebeccapurple'), witness=[n for n in names if n not in W._NAME2RGB][:5], replay=rp)
    # the colour written into SVG / TikZ documents for a tuple is the tuple
    bad = None
    for ch in range(3):
        for v in range(256):
            vals = [0x12, 0xab, 0x5f]
            vals[ch] = v
            for css3 in (True, False):
                w = W._color_to_webcolor(tuple(vals), allow_css3_colors=css3)
                back = RV.parse_color(w)
                if tuple(back)[:3] != tuple(vals):
                    bad = (tuple(vals), w)
    # every combination of channels with equal / unequal / mixed hexadecimal digits (the short #RGB form is only valid for three doubled digits)
    pats = (0x00, 0x0a, 0xa0, 0xaa, 0x11, 0x1a, 0xa1, 0xab, 0xff, 0xd2, 0xb4, 0x8c)
    for r_ in pats:
        for g_ in pats:
            for b_ in pats:
                for css3 in (True, False):
                    for opt in (True, False):
                        try:
                            w = W._color_to_webcolor((r_, g_, b_), allow_css3_colors=css3, optimize=opt)
                            if tuple(RV.parse_color(w))[:3] != (r_, g_, b_):
                                bad = ((r_, g_, b_), w)
                        except Exception as ex:
                            bad = ((r_, g_, b_), repr(ex))
    I.ground('C10.colour.webcolor_of_a_tuple_parses_back_to_the_tuple', bad is None, witness=bad, replay=rp)
    bad = None
    for a in range(256):
        try:
            w = W._color_to_webcolor((10, 20, 30, a), allow_css3_colors=True)
            w2 = W._color_to_webcolor((10, 20, 30, a), allow_css3_colors=False)
        except Exception as ex:
            bad = (a, repr(ex))
            continue
        if a == 255:
            ok = tuple(RV.parse_color(w))[:3] == (10, 20, 30)
        else:
            back = RV.parse_color(w)
            alpha = float(back[3]) if len(back) == 4 else 1.0       # two decimals: 254/255 is written as opaque
            ok = tuple(back)[:3] == (10, 20, 30) and abs(alpha - a / 255.0) <= 0.005
        if not ok:
            bad = (a, w)
        if a != 255:
            if isinstance(w2, tuple):
                ok2 = tuple(RV.parse_color(w2[0]))[:3] == (10, 20, 30) and abs(float(w2[1]) - a / 255.0) <= 0.005
            else:
                ok2 = tuple(RV.parse_color(w2))[:3] == (10, 20, 30) and abs(1.0 - a / 255.0) <= 0.005
            if not ok2:
                bad = (a, w2)
    I.ground('C10.colour.webcolor_alpha_is_a_over_255', bad is None, witness=bad, replay=rp)


def task_colour_tuples(I, prefix='C10'):
    """(r, g, b) and (r, g, b, a) tuples of ARBITRARY integers: accepted iff every channel is in 0..255, the result is the tuple itself
    (alpha 255 / 1.0 appended for three channels); otherwise ValueError and nothing else"""
    f = I.get_function('segno.writers', '_color_to_rgba')
    for n in (3, 4):
        def thunk(I):
            vals = [I.fresh_int(nm, None, None) for nm in ('r', 'g', 'b', 'a')[:n]]
            I.inputs.update(dict(zip('rgba', vals)))
            return vals, I.call_function(f, (tuple(vals),), dict(alpha_float=False))

        def post(I, kind, val):
            if kind == 'raise':
                I.ground(prefix + '.colour.tuple.only_ValueError', isinstance(val, ValueError), witness=repr(val))
                vals = [I.inputs[k] for k in 'rgba'[:n]]
                I.oblige(prefix + '.colour.tuple.refused_only_if_a_channel_is_outside_0_255', s_or(*[s_or(v < 0, v > 255) for v in vals]))
                return
            vals, res = val
            I.oblige(prefix + '.colour.tuple.accepted_only_if_every_channel_is_in_0_255', s_and(*[s_and(v >= 0, v <= 255) for v in vals]))
            items = list(res.items) if hasattr(res, 'items') and not isinstance(res, dict) else list(res)
            I.ground(prefix + '.colour.tuple.result_has_four_channels', len(items) == 4, witness=repr(items))
            if len(items) == 4:
                I.oblige(prefix + '.colour.tuple.result_is_the_tuple', s_and(*[items[k] == vals[k] for k in range(n)]))
                if n == 3:
                    I.oblige(prefix + '.colour.tuple.opaque_alpha_appended', items[3] == 255)
        I.replay_spec = dict(fn='replay_colour_values')
        I.explore(thunk, post)
