"""C01 - every symbol decodes back to exactly the content that was given.

The property is an inverse-pair statement over the encoder pipeline; each stage
carries `out == spec.stage(in)` and each stage has an inverse lemma:

  data_to_bytes        text -> bytes policy (codecs uninterpreted)           task_data_to_bytes
  make_segment         five packers against the field-level specification    task_packer[mode]
  packing is injective numeric / alphanumeric / kanji / hanzi group lemmas   task_inverse_lemmas
  Buffer.append_bits   bit level link of the field view (widths 1..16)       task_append_bits
  Segments.add_segment representation invariant, merge of same-mode parts    task_add_segment
  write_segment        ECI header, mode indicator, count indicator, payload  task_write_segment
  count fits indicator lemma fit => char_count < 2^cci                       task_count_fits
  _encode              glue (C01._encode.*)          terminator/padding: C13, RS/placement: C03,
                       masks: C06, format/version: C02 (shared obligations, proved once per property run)
  public factories     forwarding lemmas (C01.api.*)
Bounded stand-in (labelled, not counted): reference decoder on real symbols.
"""
import z3
from pyvc.runner import Task
from pyvc.sym import SInt, SBool, is_sym, s_and, s_or, s_not, s_implies, s_ite, QForall, SQuant, fresh_name, _z
from pyvc.values import SSeq, Obj, TupObj, VBytearray, FieldBuf
from pyvc.interp import LoopSpec, PyRaise
from pyvc.sym import Unsupported
from spec import iso, modes
from . import common as C
from . import c07

MOD = 'contracts.c01'
TRUSTED_BASE = [
    'pyvc interpreter, explicit quantifier instantiation, z3 (LIA with div/mod, arrays)',
    'field-list view of Buffer (ghost): linked to the bit level by C01.append_bits.* for widths 1..16',
    'spec/modes.py packers (ISO 7.4.3-7.4.6, GB/T 18284), spec/iso.py indicators',
    'CPython codecs implement ISO-8859-1 / Shift JIS / UTF-8 / GB2312 (str.encode uninterpreted: success or UnicodeError)',
    'mathematical fact (not re-proved): a list of prefix-coded fields is uniquely recovered from its flattening',
]
ASSUMPTIONS = ['composition of the stage inverses into one decoder is argued in DESIGN.md section 4 (C01) and exercised by the bounded stand-in',
               'segment payload contracts feed C04 (payload bits) and C13 (stream length)']


def tasks(tier, seed):
    ts = [Task('data_to_bytes', MOD, 'task_data_to_bytes', (), fuc=['segno.encoder.data_to_bytes'])]
    for m in iso.MODES:
        ts.append(Task('packer[%s]' % m, MOD, 'task_packer', (m,), fuc=['segno.encoder.make_segment'], weight=10))
    ts.append(Task('inverse_lemmas', MOD, 'task_inverse_lemmas', (), fuc=['spec lemma: packing is injective']))
    ts.append(Task('append_bits', MOD, 'task_append_bits', (), fuc=['segno.encoder.Buffer.append_bits', 'segno.encoder.Buffer.extend',
                                                                     'segno.encoder.Buffer.getbits', 'segno.encoder.Buffer.__len__']))
    ts.append(Task('add_segment', MOD, 'task_add_segment', (), fuc=['segno.encoder.Segments.add_segment', 'segno.encoder.Segments.__init__']))
    for v in iso.ALL_VERSIONS:
        ts.append(Task('write_segment[%s]' % iso.version_name(v), MOD, 'task_write_segment', (v,), fuc=['segno.encoder.write_segment', 'segno.encoder.get_eci_assignment_number']))
    ts.append(Task('count_fits', MOD, 'task_count_fits', (), backend='ground', fuc=['spec lemma: fit => char count fits its indicator']))
    ts.append(Task('eci_table', MOD, 'task_eci_table', (), backend='ground', fuc=['segno.consts.ECI_ASSIGNMENT_NUM']))
    ts.append(Task('prepare_data', MOD, 'task_prepare_data', (), fuc=['segno.encoder.prepare_data']))
    # the packers rely on the find_mode contract: its obligations (C07.*) are dependencies of C01
    ts += [t for t in c07.tasks(tier, seed) if t.func in ('task_alnum_set', 'task_is_kanji', 'task_is_alphanumeric', 'task_find_mode')]
    # nothing is cut off: the size used to choose / accept the version is the number of bits the writers produce
    # (C04: bit_length_with_overhead == ISO need, incl. the ECI / Hanzi header per part): dependency of C01
    from . import c04
    ts += [t for t in c04.tasks(tier, seed) if t.func == 'task_need']
    n = 40 if tier == 'quick' else 600
    for k in range(16):
        ts.append(Task('bounded_decode[%d]' % k, MOD, 'task_bounded_decode', (seed, k, n), backend='bounded',
                       fuc=['segno.make', 'segno.make_qr', 'segno.make_micro'], weight=30))
    # decodability is the composition of the stage contracts: the obligations of the later stages (layout and format information C02,
    # block structure / placement C03, terminator and padding C13, masking C06) are dependencies of C01 and are discharged in this check too
    from . import c02, c03, c13, c06
    seen = {(t.module, t.func, repr(t.args)) for t in ts}
    for dep in (c02, c03, c13, c06):
        for t in dep.tasks(tier, seed):
            key = (t.module, t.func, repr(t.args))
            if t.backend == 'bounded' or t.func in ('task_glue', 'task_wrappers') or key in seen:
                continue
            seen.add(key)
            ts.append(t)
    from . import glue, api
    ts += glue.glue_tasks('C01')
    ts.append(Task('api_wrappers', 'contracts.api', 'task_wrappers', ('C01',), backend='ground', fuc=api.FUC))
    return ts


# ------------------------------------------------------------------ data_to_bytes
class SymStr:
    """opaque text; encode(codec) succeeds (opaque bytes tagged with the codec) or raises UnicodeEncodeError"""

    def __init__(self, name):
        self.name = name

    def __str__(self):
        return self          # str(x) of a str is x

    def encode(self, codec, errors='strict'):
        I = __import__('pyvc.values', fromlist=['cur']).cur()
        import codecs
        try:
            canon = codecs.lookup(codec).name
        except LookupError as le:
            raise PyRaise(le)
        ok = I.decide(SBool(z3.Bool('encodable_%s_%s' % (self.name, canon.replace('-', '_')))))
        I.encode_log.append((canon, ok))
        if not ok:
            raise PyRaise(UnicodeEncodeError(canon, 'x', 0, 1, 'not encodable'))
        b = SSeq.fresh('enc_%s' % canon.replace('-', '_'))
        b.src = (self, canon)
        return b


def task_data_to_bytes(I):
    f = I.get_function('segno.encoder', 'data_to_bytes')

    def m_str(x=''):
        return x
    for given in (None, 'utf-8', 'iso-8859-15', 'shift_jis', 'gb2312', 'no-such-codec'):
        for kind in ('str', 'int', 'bytes'):
            st = {}

            def thunk(I):
                I.encode_log = []
                if kind == 'bytes':
                    data = SSeq.fresh('raw')
                else:
                    data = SymStr('text')
                st['data'] = data
                # str(data): for text the value itself; for int its decimal digits (builtin, opaque text here)
                I.native_models[str] = lambda x='': x if isinstance(x, SymStr) else str(x)
                return I.call_function(f, (data, given), {})

            def post(I, k, val):
                data = st['data']
                log = I.encode_log
                if kind == 'bytes':
                    ok = k == 'return' and val[0] is data and (val[1] == data.length) is True and val[2] == (given or 'iso-8859-1')
                    I.ground('C01.data_to_bytes.bytes_unchanged', ok, witness=repr(val)[:100])
                    return
                if given == 'no-such-codec':
                    I.ground('C01.data_to_bytes.unknown_codec_is_LookupError', k == 'raise' and isinstance(val, LookupError), witness=repr(val)[:100])
                    return
                if given is not None:
                    import codecs
                    canon = codecs.lookup(given).name
                    if log and log[0][1]:
                        ok = k == 'return' and getattr(val[0], 'src', None) == (data, canon) and val[2] == given and (val[1] == val[0].length) is True
                        I.ground('C01.data_to_bytes.requested_encoding_used', ok and len(log) == 1, witness=dict(log=log, got=repr(val)[:80]))
                    else:
                        I.ground('C01.data_to_bytes.unencodable_in_requested_encoding_is_UnicodeError',
                                 k == 'raise' and isinstance(val, UnicodeError) and len(log) == 1, witness=dict(log=log, got=repr(val)[:80]))
                    return
                # no encoding requested: first of iso-8859-1, shift_jis, utf-8 that can represent the text
                order = ['iso8859-1', 'shift_jis', 'utf-8']
                tried = [c for c, _ in log]
                I.ground('C01.data_to_bytes.policy_order_latin1_sjis_utf8', tried == order[:len(tried)] and all(not ok for _, ok in log[:-1]),
                         witness=dict(log=log))
                if log and log[-1][1]:
                    canon = log[-1][0]
                    ok = k == 'return' and getattr(val[0], 'src', None) == (data, canon) and (val[1] == val[0].length) is True
                    import codecs
                    ok = ok and codecs.lookup(val[2]).name == canon
                    I.ground('C01.data_to_bytes.first_encoding_that_can_represent_the_text', ok, witness=dict(log=log, got=repr(val)[:80]))
                else:
                    I.ground('C01.data_to_bytes.only_utf8_failure_escapes_as_UnicodeError', k == 'raise' and isinstance(val, UnicodeError) and
                             len(log) == 3, witness=dict(log=log, got=repr(val)[:80]))
            I.replay_spec = dict(fn='replay_data_to_bytes', given=given, kind=kind)
            saved = I.native_models.get(str)
            I.explore(thunk, post)
            I.native_models[str] = saved


# ------------------------------------------------------------------ packers (field view)
def install_field_buffer(I, st):
    """Buffer methods at the field level (their bit-level meaning: task_append_bits)"""
    def s_init(I, clo, args, kwargs):
        b = I.bind_args(clo, args, kwargs)
        b['self'].attrs['_data'] = FieldBuf()
        return None

    def s_append_bits(I, clo, args, kwargs):
        b = I.bind_args(clo, args, kwargs)
        fb = b['self'].attrs['_data']
        val, length = b['val'], b['length']
        length = I.concretize(length, 1, 16)
        # no truncation: the value must fit the field (a count or value that does not fit would silently lose bits)
        I.oblige('C01.append_bits.call_site.value_fits_field', s_and(val >= 0, val < (1 << length)), kind='pre',
                 note='in %s' % st.get('where', ''))
        fb.append_field(val, length)
        return None
    I.summaries['segno.encoder:Buffer.__init__'] = s_init
    I.summaries['segno.encoder:Buffer.append_bits'] = s_append_bits


def summary_find_mode_for(mode):
    """find_mode contract restricted to the outcome that lets make_segment accept `mode`"""
    return c07.summary_find_mode


def task_packer(I, mode):
    enc = C.encoder()
    f = I.get_function('segno.encoder', 'make_segment')
    st = {'where': 'make_segment[%s]' % mode}
    install_field_buffer(I, st)
    I.summaries['segno.encoder:find_mode'] = c07.summary_find_mode

    def s_data_to_bytes(I, clo, args, kwargs):
        b = I.bind_args(clo, args, kwargs)
        data = SSeq.fresh('data')
        st['data'] = data
        I.inputs['data'] = data
        return data, data.length, (b['encoding'] or 'iso-8859-1')
    I.summaries['segno.encoder:data_to_bytes'] = s_data_to_bytes
    loops = __import__('pyvc.extract', fromlist=['loops_of']).loops_of(f.node)
    order = ('numeric', 'alphanumeric', 'byte', 'hanzi', 'kanji')      # source order of the packing loops
    if len(loops) != 5:
        raise Unsupported('loop contracts do not attach: make_segment has %d loops, the contract is written for the five packing loops' % len(loops))

    def make_inv(m):
        def inv(ctx):
            k = ctx.k
            data = st['data']
            n = data.length
            fb = ctx.L['buff'].attrs['_data'].snapshot()
            at = lambda p: data.raw_abs(data.off + p)

            def body(g):
                val, width = modes.field(m, at, n, g)
                return s_implies(s_and(g >= 0, g < k), s_and(fb.val_at(g) == val, fb.width_at(g) == width))
            per = {'numeric': 3, 'alphanumeric': 2, 'byte': 1, 'kanji': 2, 'hanzi': 2}[m]
            consumed = s_ite(per * k <= n, per * k, n) if m in ('numeric', 'alphanumeric') else per * k
            out = [('field_count', fb.count == k),
                   ('bit_length', fb.bitlen == modes.payload_bits(m, consumed)),
                   ('fields_are_spec_fields', QForall(body, 'inv_fields'))]
            if m in ('kanji', 'hanzi'):
                out.append(('pairs_complete', s_implies(k >= 1, 2 * k <= n)))
            return out

        def havoc(ctx):
            ctx.L['buff'].attrs['_data'].havoc(ctx.interp)
        return LoopSpec(inv, havoc)
    for o, m in enumerate(order, 1):
        I.loopspecs[('segno.encoder:make_segment', o)] = make_inv(m)
    mc = C.mode_const(mode)

    def thunk(I):
        for key in list(st):
            if key != 'where':
                del st[key]
        return I.call_function(f, ('<content>', mc), {})

    def post(I, kind, val):
        data = st.get('data')
        if kind != 'return' or data is None:
            if kind == 'raise' and isinstance(val, ValueError):
                return      # refusal: C07
            I.oblige('C01.make_segment.no_exception_other_than_ValueError', False, note='%s %r' % (kind, val))
            return
        n = data.length
        bits, cc, m_, enc_ = val.items
        I.ground('C01.make_segment.bits_is_the_buffer', isinstance(bits, FieldBuf), witness=repr(bits))
        at = lambda p: data.raw_abs(data.off + p)
        I.oblige('C01.make_segment.%s.char_count' % mode, cc == modes.char_count(mode, n))
        I.oblige('C01.make_segment.%s.number_of_fields' % mode, bits.count == modes.field_count(mode, n))
        I.oblige('C01.make_segment.%s.payload_bit_length' % mode, bits.bitlen == modes.payload_bits(mode, n))
        fbs = bits.snapshot()

        def body(g):
            v_, w_ = modes.field(mode, at, n, g)
            return s_implies(s_and(g >= 0, g < modes.field_count(mode, n)), s_and(fbs.val_at(g) == v_, fbs.width_at(g) == w_))
        I.oblige('C01.make_segment.%s.fields_are_ISO_packing_of_the_bytes' % mode, QForall(body, 'post_fields'))
        I.ground('C01.make_segment.%s.mode_and_encoding' % mode, m_ == mc and ((enc_ is None) == (mode != 'byte')), witness=repr((m_, enc_)))
    I.replay_spec = dict(fn='replay_packer', mode=mode)
    I.explore(thunk, post)


# ------------------------------------------------------------------ packing is injective (inverse lemmas)
def task_inverse_lemmas(I):
    def lemma(name, build):
        I.explore(lambda I: None, lambda I, k, v: build(I))

    def numeric(I):
        a = [I.fresh_int('a%d' % i, 0, 9) for i in range(3)]
        b = [I.fresh_int('b%d' % i, 0, 9) for i in range(3)]
        for ln, w in ((3, 10), (2, 7), (1, 4)):
            va = sum(x * 10 ** (ln - 1 - i) for i, x in enumerate(a[:ln]))
            vb = sum(x * 10 ** (ln - 1 - i) for i, x in enumerate(b[:ln]))
            I.oblige('C01.lemma.numeric_group_fits_%d_bits' % w, va < (1 << w))
            I.oblige('C01.lemma.numeric_group_injective', s_implies(va == vb, s_and(*[x == y for x, y in zip(a[:ln], b[:ln])])))
    lemma('numeric', numeric)

    def alnum(I):
        a = [I.fresh_int('a%d' % i, 0, 44) for i in range(2)]
        b = [I.fresh_int('b%d' % i, 0, 44) for i in range(2)]
        I.oblige('C01.lemma.alphanumeric_pair_fits_11_bits', 45 * a[0] + a[1] < 2048)
        I.oblige('C01.lemma.alphanumeric_single_fits_6_bits', a[0] < 64)
        I.oblige('C01.lemma.alphanumeric_pair_injective', s_implies(45 * a[0] + a[1] == 45 * b[0] + b[1], s_and(a[0] == b[0], a[1] == b[1])))
    lemma('alnum', alnum)

    def table(I):
        vals = [modes.alnum_value(c) for c in modes.ALNUM45]
        I.ground('C01.lemma.alphanumeric_table_injective', vals == list(range(45)), witness=vals)
    table(I)

    def dbl(I, valid, value, nm):
        h, l, h2, l2 = [I.fresh_int(x, 0, 255) for x in ('h', 'l', 'h2', 'l2')]
        I.inputs.update(h=h, l=l, h2=h2, l2=l2)
        I.assume(valid(h, l))
        I.assume(valid(h2, l2))
        v1, v2 = value(h, l), value(h2, l2)
        I.oblige('C01.lemma.%s_value_fits_13_bits' % nm, s_and(v1 >= 0, v1 < 8192))
        I.oblige('C01.lemma.%s_packing_injective_on_valid_double_bytes' % nm, s_implies(v1 == v2, s_and(h == h2, l == l2)))
    lemma('kanji', lambda I: dbl(I, modes.sjis_pair_valid, modes.kanji_value, 'kanji'))
    lemma('hanzi', lambda I: dbl(I, modes.gb2312_pair_valid, modes.hanzi_value, 'hanzi'))


# ------------------------------------------------------------------ Buffer.append_bits at the bit level
def task_append_bits(I):
    enc = C.encoder()
    f = I.lookup_class_attr(enc.Buffer, 'append_bits')
    g_len = I.lookup_class_attr(enc.Buffer, '__len__')
    g_bits = I.lookup_class_attr(enc.Buffer, 'getbits')
    for width in range(1, 17):
        st = {}

        def thunk(I):
            b = I.instantiate(enc.Buffer, (), {})
            b.attrs['_data'].extend([1, 0, 1])          # some earlier content
            v = I.fresh_int('val', 0, None)
            I.inputs['val'] = v
            st['v'] = v
            st['b'] = b
            I.call_function(f, (b, v, width), {})
            return b

        def post(I, kind, val):
            if kind != 'return':
                I.oblige('C01.append_bits.no_exception', False, note=repr(val))
                return
            d = st['b'].attrs['_data']
            items = d.items
            I.ground('C01.append_bits.appends_exactly_width_bits_after_the_existing_ones', len(items) == 3 + width and items[:3] == [1, 0, 1], witness=len(items))
            I.ground('C01.Buffer.len_and_getbits', I.call_function(g_len, (st['b'],), {}) == 3 + width and I.call_function(g_bits, (st['b'],), {}) is d, witness='len')
            if len(items) != 3 + width:
                return
            v = st['v']
            for t, bit in enumerate(items[3:]):
                # MSB-first binary representation: bit t is floor(v / 2^(width-1-t)) mod 2
                I.oblige('C01.append_bits.bit_is_binary_digit_msb_first', bit == (v // (1 << (width - 1 - t))) % 2)
        I.replay_spec = dict(fn='replay_append_bits', width=width)
        I.explore(thunk, post)


# ------------------------------------------------------------------ Segments.add_segment
def task_add_segment(I):
    """representation invariant of Segments (used by C04/C05/C13) and the merge of adjacent parts of one mode"""
    enc = C.encoder()
    f = I.lookup_class_attr(enc.Segments, 'add_segment')
    for m1 in iso.MODES:
        for m2 in iso.MODES:
            for same_enc in (True, False):
                if m1 != 'byte' and not same_enc:
                    continue
                st = {}

                def mk(I, nm, mode, encoding):
                    data = SSeq.fresh('d_' + nm)
                    n = data.length
                    fb = FieldBuf()
                    fb.havoc(I, nm)
                    at = lambda p: data.raw_abs(data.off + p)
                    # the segment satisfies the make_segment contract
                    I.assume(fb.count == modes.field_count(mode, n))
                    I.assume(fb.bitlen == modes.payload_bits(mode, n))
                    fbs = fb.snapshot()
                    I.assume(QForall(lambda g: s_implies(s_and(g >= 0, g < modes.field_count(mode, n)),
                                                         s_and(fbs.val_at(g) == modes.field(mode, at, n, g)[0],
                                                               fbs.width_at(g) == modes.field(mode, at, n, g)[1])), 'seg_' + nm))
                    if mode in ('kanji', 'hanzi'):
                        I.assume(n % 2 == 0)
                    if mode in ('numeric', 'alphanumeric', 'kanji'):
                        I.assume(n >= 1)
                    cc = modes.char_count(mode, n)
                    seg = TupObj(enc._Segment, (fb, cc, C.mode_const(mode), encoding))
                    I.inputs['len_' + nm] = n
                    return seg, data

                def thunk(I):
                    segs = I.instantiate(enc.Segments, (), {})
                    e1 = 'iso-8859-1' if m1 == 'byte' else None
                    e2 = (e1 if same_enc else 'utf-8') if m2 == 'byte' else None
                    s1, d1 = mk(I, 'a', m1, e1)
                    s2, d2 = mk(I, 'b', m2, e2)
                    st.update(s1=s1, s2=s2, d1=d1, d2=d2, segs=segs, e1=e1, e2=e2)
                    # an earlier part of another class comes first: whatever happens to the last two parts, it (and its entry in `modes`) must stay
                    m0 = 'hanzi' if m1 != 'hanzi' else 'kanji'
                    s0, d0 = mk(I, 'z', m0, None)
                    st['s0'] = s0
                    I.call_function(f, (segs, s0), {})
                    I.call_function(f, (segs, s1), {})
                    I.call_function(f, (segs, s2), {})
                    return segs

                def post(I, kind, val):
                    if kind != 'return':
                        I.oblige('C01.add_segment.no_exception', False, note=repr(val))
                        return
                    segs = st['segs']
                    lst = segs.attrs['segments']
                    md = segs.attrs['modes']
                    bl = segs.attrs['bit_length']
                    I.ground('C01.add_segment.modes_mirror_segments', list(md) == [s.items[2] for s in lst], witness=repr(md))
                    I.ground('C01.add_segment.earlier_parts_untouched', len(lst) >= 2 and lst[0] is st['s0'], witness=len(lst))
                    lst = lst[1:]
                    tot = st['s0'].items[0].bitlen
                    for s in lst:
                        tot = tot + s.items[0].bitlen
                    I.oblige('C01.add_segment.bit_length_is_sum_of_payload_bits', bl == tot)
                    same_class = (m1 == m2 and st['e1'] == st['e2'])
                    # two parts stay two segments (always a correct encoding) or - only for parts of one
                    # class - become one segment that must itself be the ISO packing of the concatenation
                    if len(lst) == 2:
                        I.ground('C01.add_segment.distinct_parts_kept_in_order', lst[0] is st['s1'] and lst[1] is st['s2'], witness=len(lst))
                        return
                    I.ground('C01.add_segment.merge_only_parts_of_one_mode_and_encoding', len(lst) == 1 and same_class, witness=dict(n=len(lst), m1=m1, m2=m2))
                    if len(lst) != 1 or not same_class:
                        return
                    # the merged segment must again satisfy the make_segment contract for the concatenated bytes
                    fb, cc = lst[0].items[0], lst[0].items[1]
                    d1, d2 = st['d1'], st['d2']
                    n1, n2 = d1.length, d2.length
                    n = n1 + n2

                    def at(p):
                        return s_ite(p < n1, d1.raw_abs(d1.off + p), d2.raw_abs(d2.off + p - n1))
                    I.oblige('C01.add_segment.merged.char_count', cc == modes.char_count(m1, n))
                    I.oblige('C01.add_segment.merged.number_of_fields', fb.count == modes.field_count(m1, n))
                    I.oblige('C01.add_segment.merged.payload_bit_length', fb.bitlen == modes.payload_bits(m1, n))
                    fbs = fb.snapshot()

                    def body(g):
                        v_, w_ = modes.field(m1, at, n, g)
                        return s_implies(s_and(g >= 0, g < modes.field_count(m1, n)), s_and(fbs.val_at(g) == v_, fbs.width_at(g) == w_))
                    q = QForall(body, 'merged_fields')
                    # the proof needs the facts of both parts at the skolem group and at the shifted group
                    sk = I.fresh_int('sk_merged')
                    I.inputs['group'] = sk
                    I.add_index_term(sk)
                    I.add_index_term(sk - modes.field_count(m1, n1))
                    I.oblige('C01.add_segment.merged.fields_are_ISO_packing_of_the_concatenated_bytes', body(sk))
                I.replay_spec = dict(fn='replay_add_segment', m1=m1, m2=m2, same_enc=same_enc)
                I.explore(thunk, post)


# ------------------------------------------------------------------ write_segment
def task_write_segment(I, v):
    enc = C.encoder()
    consts = C.consts()
    f = I.get_function('segno.encoder', 'write_segment')
    st = {'where': 'write_segment'}
    ver = None if v >= 1 else v
    ver_range = v if v < 1 else enc.version_range(v)
    for mode in iso.MODES:
        if not iso.mode_available(mode, v):
            continue
        for eci in ((False, True) if v >= 1 else (False,)):
            for encoding in (('iso-8859-1', 'utf-8', 'shift_jis', 'UTF-8', 'latin1') if mode == 'byte' else (None,)):
                def thunk(I):
                    install_field_buffer(I, st)
                    buff = I.instantiate(enc.Buffer, (), {})
                    buff.attrs['_data'].append_field(I.fresh_int('earlier', 0, 15), 4)      # something written before
                    seg_bits = FieldBuf()
                    seg_bits.havoc(I, 'seg')
                    cc = I.fresh_int('char_count', 0, None)
                    I.inputs['char_count'] = cc
                    # caller obligation (C04 fit + lemma count_fits): the count fits its indicator
                    w = iso.cci_len(mode, v)
                    I.assume(cc < (1 << w))
                    seg = TupObj(enc._Segment, (seg_bits, cc, C.mode_const(mode), encoding))
                    st.update(buff=buff, seg=seg, cc=cc, before=buff.attrs['_data'].snapshot(), seg_bits=seg_bits.snapshot())
                    # Buffer.extend(FieldBuf): appends the fields of the segment
                    I.summaries['segno.encoder:Buffer.extend'] = s_extend
                    I.call_function(f, (buff, seg, ver, ver_range, eci), {})
                    return buff

                def s_extend(I, clo, args, kwargs):
                    b = I.bind_args(clo, args, kwargs)
                    st['extended_with'] = b['iterable']
                    st['at_extend'] = b['self'].attrs['_data'].snapshot()
                    return None

                def post(I, kind, val):
                    if kind != 'return':
                        I.oblige('C01.write_segment.no_exception', False, note='%s %s %r' % (mode, encoding, val))
                        return
                    fb = st['at_extend'] if 'at_extend' in st else None
                    I.ground('C01.write_segment.payload_appended_last', st.get('extended_with') is st['seg'].items[0], witness=repr(st.get('extended_with')))
                    if fb is None:
                        return
                    want = []
                    if eci and mode == 'byte' and encoding != 'iso-8859-1':
                        import codecs
                        want.append((iso.MODE_ECI, 4))
                        want.append((ECI_NUMBERS[codecs.lookup(encoding).name], 8))
                    if v >= 1:
                        want.append((iso.MODE_INDICATOR[mode], 4))
                        if mode == 'hanzi':
                            want.append((1, 4))
                    elif v > iso.M1:
                        want.append((iso.MICRO_MODE_INDICATOR[mode], iso.mode_indicator_len(v)))
                    want.append((st['cc'], iso.cci_len(mode, v)))
                    I.oblige('C01.write_segment.number_of_header_fields', fb.count == 1 + len(want))
                    for t, (val_, w_) in enumerate(want):
                        I.oblige('C01.write_segment.header_field_%s' % ('value'), fb.val_at(1 + t) == val_,
                                 note='%s v=%s eci=%s enc=%s field %d' % (mode, v, eci, encoding, t))
                        I.oblige('C01.write_segment.header_field_width', fb.width_at(1 + t) == w_)
                    I.oblige('C01.write_segment.earlier_fields_untouched', s_and(fb.val_at(0) == st['before'].val_at(0), fb.width_at(0) == 4))
                I.replay_spec = dict(fn='replay_write_segment', version=v, mode=mode, eci=eci, encoding=encoding)
                I.explore(thunk, post)
                I.summaries.pop('segno.encoder:Buffer.extend', None)


# ISO/IEC 18004 / AIM ECI assignment numbers of the character sets (independent transcription)
ECI_NUMBERS = {
    'cp437': 2, 'iso8859-1': 3, 'iso8859-2': 4, 'iso8859-3': 5, 'iso8859-4': 6, 'iso8859-5': 7, 'iso8859-6': 8,
    'iso8859-7': 9, 'iso8859-8': 10, 'iso8859-9': 11, 'iso8859-10': 12, 'iso8859-11': 13, 'iso8859-13': 15,
    'iso8859-14': 16, 'iso8859-15': 17, 'iso8859-16': 18, 'shift_jis': 20, 'cp1250': 21, 'cp1251': 22, 'cp1252': 23,
    'cp1256': 24, 'utf-16-be': 25, 'utf-8': 26, 'ascii': 27, 'big5': 28, 'gb18030': 29, 'gbk': 29, 'euc_kr': 30,
}


def task_eci_table(I):
    c = C.consts()
    I.replay_spec = dict(fn='replay_eci_table')
    for name, num in c.ECI_ASSIGNMENT_NUM.items():
        I.ground('C01.table.eci_assignment_number', ECI_NUMBERS.get(name) == num, witness=dict(codec=name, got=num, want=ECI_NUMBERS.get(name)))
    import codecs
    for name in c.ECI_ASSIGNMENT_NUM:
        try:
            ok = codecs.lookup(name).name == name
        except LookupError:
            ok = False
        I.ground('C01.table.eci_keys_are_canonical_codec_names', ok, witness=name)


def task_count_fits(I):
    """fit in (version, any level) => character count < 2^cci for the version: checked with the
    largest capacity (level L) and the smallest payload a count can have"""
    per = {'numeric': (10, 3), 'alphanumeric': (11, 2), 'byte': (8, 1), 'kanji': (13, 1), 'hanzi': (13, 1)}
    for v in iso.ALL_VERSIONS:
        lv = iso.levels_of(v)[0]
        cap = iso.data_capacity_bits(v, lv)
        for m in iso.MODES:
            w = iso.cci_len(m, v)
            if w is None:
                continue
            over = iso.mode_indicator_len(v) + w + (4 if m == 'hanzi' else 0)
            # largest count whose payload still fits
            c = 0
            while over + _min_payload(m, c + 1) <= cap:
                c += 1
            I.ground('C01.lemma.fit_implies_count_fits_indicator', c < (1 << w), witness=dict(version=iso.version_name(v), mode=m, max_count=c, indicator_bits=w))


def _min_payload(m, c):
    if m == 'numeric':
        return 10 * (c // 3) + (0, 4, 7)[c % 3]
    if m == 'alphanumeric':
        return 11 * (c // 2) + 6 * (c % 2)
    if m == 'byte':
        return 8 * c
    return 13 * c


# ------------------------------------------------------------------ prepare_data
def task_prepare_data(I):
    """prepare_data: one segment per part, in order, with the part's (or the global) mode and encoding"""
    enc = C.encoder()
    f = I.get_function('segno.encoder', 'prepare_data')
    calls = []

    def s_make_segment(I, clo, args, kwargs):
        b = I.bind_args(clo, args, kwargs)
        calls.append((b['data'], b['mode'], b['encoding']))
        return TupObj(enc._Segment, (FieldBuf(), 0, 100 + len(calls), None))   # distinct pseudo modes: no merging
    I.summaries['segno.encoder:make_segment'] = s_make_segment
    cases = [('abc', None, None), (b'xyz', 4, 'utf-8'), (123, 1, None),
             (['a', b'b', 7], None, None), (('a', ('b', 2), ('c', None, 'utf-8'), ('d', 4, None), ('e',)), 1, 'latin1')]
    for content, mode, encoding in cases:
        del calls[:]
        res = {}
        I.explore(lambda I: I.call_function(f, (content, mode, encoding), {}), lambda I, k, v: res.update(kind=k, val=v))
        if isinstance(content, (str, bytes, int)):
            want = [(content, mode, encoding)]
        else:
            want = []
            for item in content:
                if isinstance(item, tuple):
                    want.append((item[0], (item[1] if len(item) > 1 and item[1] else mode), (item[2] if len(item) > 2 and item[2] else encoding)))
                else:
                    want.append((item, mode, encoding))
        I.ground('C01.prepare_data.one_segment_per_part_in_order', res.get('kind') == 'return' and calls == want,
                 witness=dict(content=repr(content), got=repr(calls), want=repr(want)))
        if res.get('kind') == 'return':
            I.ground('C01.prepare_data.all_segments_added', len(res['val'].attrs['segments']) == len(want), witness=len(res['val'].attrs['segments']))


# ------------------------------------------------------------------ bounded stand-in: reference decoder on real symbols
def gen_content(rnd, mode):
    n = rnd.choice((0, 1, 1, 2, 3, 4, 5, 7, 8, 12, 17, 40, 120)) if mode != 'empty' else 0
    if mode == 'numeric':
        return ''.join(rnd.choice('0123456789') for _ in range(max(1, n)))
    if mode == 'alphanumeric':
        return ''.join(rnd.choice('0123456789ABCDEFGHIJKLMNOPQRSTUVWXYZ $%*+-./:') for _ in range(max(1, n)))
    if mode == 'kanji':
        return ''.join(rnd.choice('点茗テ漢字外来語') for _ in range(max(1, n // 2)))
    if mode == 'hanzi':
        return ''.join(rnd.choice('汉字编码书读') for _ in range(max(1, n // 2)))
    if mode == 'bytes':
        return bytes(rnd.randrange(256) for _ in range(n))
    if mode == 'int':
        return rnd.randrange(10 ** rnd.randrange(1, 12))
    if mode == 'latin':
        return ''.join(rnd.choice('abcXYZ äöüß,;é') for _ in range(n))
    if mode == 'utf8':
        return ''.join(rnd.choice('aЖ€点\U0001F600x') for _ in range(max(1, n // 2)))
    return ''


def task_bounded_decode(I, seed, k, n):
    """BOUNDED: decode(make(content, options).matrix) == expected bytes, with the independent reference decoder"""
    import random
    import segno
    from spec import qrdecode
    rnd = random.Random(seed * 7919 + k)
    done = 0
    samples = []
    for t in range(n):
        kinds = ['numeric', 'alphanumeric', 'kanji', 'bytes', 'int', 'latin', 'utf8', 'hanzi', 'list']
        kind = kinds[(k + t) % len(kinds)]
        kw = {}
        if kind == 'list':
            parts = [gen_content(rnd, rnd.choice(['numeric', 'alphanumeric', 'latin', 'kanji', 'bytes'])) for _ in range(rnd.randrange(2, 5))]
            content = parts
        else:
            content = gen_content(rnd, kind)
        if kind == 'hanzi':
            kw['mode'] = 'hanzi'
        if rnd.random() < 0.3:
            kw['error'] = rnd.choice('LMQH')
        if rnd.random() < 0.3:
            kw['boost_error'] = False
        if rnd.random() < 0.25 and kind in ('latin', 'utf8'):
            kw['encoding'] = rnd.choice(['utf-8', 'iso-8859-15', 'utf-8'])
        if rnd.random() < 0.3:
            kw['eci'] = True
        if rnd.random() < 0.3:
            kw['micro'] = rnd.choice([True, False])
        if rnd.random() < 0.2:
            kw['version'] = rnd.choice([1, 2, 5, 7, 10, 27, 40, 'M2', 'M3', 'M4'])
        if rnd.random() < 0.3:
            kw['mask'] = rnd.randrange(4)
        if rnd.random() < 0.1 and kind in ('numeric', 'alphanumeric', 'latin'):
            kw['mode'] = 'byte'
        call = 'segno.make(%r, **%r)' % (content if len(repr(content)) < 80 else repr(content)[:80] + '...', kw)
        try:
            q = segno.make(content, **kw)
        except ValueError:
            continue            # refusal: C14 / C04
        except LookupError:
            continue
        except Exception as ex:
            I.ground('C01.bounded.make_raises_only_ValueError', False, witness=dict(call=call, raised=repr(ex)), kind='bounded',
                     replay=dict(fn='replay_bounded_decode', content=repr(content), kw=repr(kw)))
            continue
        d = qrdecode.decode(q.matrix)
        try:
            want = qrdecode.expected_payload(content, mode=kw.get('mode'), encoding=kw.get('encoding'))
        except Exception as ex:
            continue
        done += 1
        ok = (d.payload == want) and not d.problems and d.syndromes_ok
        ecis = [s_ for s_ in d.segments if s_.mode == 'eci']
        eci_ok = True
        if q.is_micro or not kw.get('eci'):
            eci_ok = not ecis
        if ok and eci_ok:
            I.ground_pass('C01.bounded.symbol_decodes_to_content', 1, kind='bounded')
        else:
            I.ground('C01.bounded.symbol_decodes_to_content', False,
                     witness=dict(call=call, decoded=repr(d.payload)[:80], want=repr(want)[:80], problems=d.problems[:3], eci_headers=len(ecis)),
                     kind='bounded', replay=dict(fn='replay_bounded_decode', content=repr(content), kw=repr(kw)))
        if len(samples) < 2:
            samples.append(dict(call=call, designator=q.designator, payload_len=len(want)))
    I.samples = [dict(bounded='decode(make(content).matrix) == content', cases=done, examples=samples)]
