"""C11 - module iteration and per-type colouring classify every module correctly.

Functions under contract: utils.matrix_iter_verbose (incl. get_bit), utils.matrix_iter,
check_valid_scale, check_valid_border, get_border; writers._make_colormap.

cc-sym: for each of the 44 sizes the real matrix_iter_verbose is executed on a valid
symbol whose data / format / version modules are symbolic bits; every yielded value is
compared (as a linear form in the module bit) with the ISO type of its position."""
from pyvc.runner import Task
from pyvc.sym import SInt, is_sym, named_int
from pyvc.values import VBytearray
from spec import iso, layout
from . import common as C
from . import kf

MOD = 'contracts.c11'
TRUSTED_BASE = ['pyvc interpreter (generators evaluated eagerly: the generators of utils.py have no side effects visible to their consumers)',
                'spec/layout.py function-pattern map; documented TYPE_* constants taken by name from segno.consts']
ASSUMPTIONS = ['the matrix is a valid symbol (function patterns at their ISO values: C02)',
               'colour-indexed rendering in PNG/SVG/PPM is covered by bounded stand-ins only']

KIND_CONST = {layout.FINDER_K: 'FINDER_PATTERN', layout.TIMING: 'TIMING', layout.ALIGNMENT: 'ALIGNMENT_PATTERN',
              layout.FORMAT: 'FORMAT', layout.VERSION: 'VERSION', layout.DATA: 'DATA'}


def tasks(tier, seed):
    ts = [Task('type_constants', MOD, 'task_constants', (), backend='ground', fuc=['segno.consts.TYPE_*'])]
    for v in iso.ALL_VERSIONS:
        ts.append(Task('classification[%s]' % iso.version_name(v), MOD, 'task_classify', (v,), backend='cc-sym',
                       fuc=['segno.utils.matrix_iter_verbose', 'segno.utils.matrix_iter', 'segno.utils.check_valid_scale',
                            'segno.utils.check_valid_border', 'segno.utils.get_border', 'segno.utils.get_default_border_size'],
                       weight=max(1, v) * 3))
    ts.append(Task('argument_refusal', MOD, 'task_refusal', (), backend='ground',
                   fuc=['segno.utils.matrix_iter', 'segno.utils.matrix_iter_verbose', 'segno.utils.check_valid_scale', 'segno.utils.check_valid_border']))
    for fn in ('matrix_iter', 'matrix_iter_verbose'):
        ts.append(Task('iter_kernel[%s]' % fn, MOD, 'task_iter_kernel', (fn,), fuc=['segno.utils.' + fn, 'segno.utils.get_border', 'segno.utils.get_default_border_size',
                                                                                    'segno.utils.check_valid_scale', 'segno.utils.check_valid_border'], weight=20))
    ts.append(Task('colormap', MOD, 'task_colormap', (), backend='ground', fuc=['segno.writers._make_colormap', 'segno.writers.colorful'], weight=30))
    for k in range(8):
        ts.append(Task('bounded_colourful[%d]' % k, MOD, 'task_bounded_colourful', (seed, k, 6 if tier == 'quick' else 40), backend='bounded',
                       fuc=['segno.writers.colorful', 'segno.writers._make_colormap', 'segno.writers.write_png', 'segno.writers.write_ppm'], weight=40))
    return ts


def task_bounded_colourful(I, seed, k, n):
    """BOUNDED (labelled): colour-indexed PNG / PPM of real symbols, every pixel has the colour configured for the ISO type of its module"""
    import random
    from spec import readers_raster as RR
    from . import c09
    rnd = random.Random(seed * 6151 + k)
    syms = [q for q, adv in c09.symbols(rnd) if not adv]
    I.prefix_tag = 'C11.rendering:'
    try:
        # fixed cases: a transparent module type next to the first colour of the name table, and next to black / white
        # (indexed PNG images reserve a palette entry for transparency: it must not collide with a configured colour)
        FIXED = [dict(dark='navy', light='aliceblue', quiet_zone=None, finder_dark='red'), dict(dark='aliceblue', light=None, data_dark='red'),
                 dict(dark='black', light=None, finder_light='white', data_light='aliceblue'), dict(dark='white', light='black', quiet_zone=None, timing_dark='antiquewhite')]
        if k < len(FIXED):
            qr = syms[k % len(syms)]
            for kind in ('png', 'svg'):
                probs = c09.colourful_problems(qr, c09._iso_version(qr), kind, 2, 1, FIXED[k])
                nm = 'C09.bounded.colourful_%s.module_has_colour_of_its_type' % kind
                if probs:
                    I.ground(nm, False, witness=dict(symbol=qr.designator, kind=kind, colours=FIXED[k], problems=probs[:3]), kind='bounded',
                             replay=dict(fn='replay_colourful', designator=qr.designator, version=c09._iso_version(qr), kind=kind, scale=2, border=1, ckw=repr(FIXED[k])))
                else:
                    I.ground_pass(nm, 1, kind='bounded')
        for t in range(n):
            c09._colourful_case(I, RR, syms[(k + t) % len(syms)], rnd)
    finally:
        I.prefix_tag = ''
    I.samples = [dict(bounded='colour-indexed PNG / PPM read back', files=n)]


def task_constants(I):
    c = C.consts()
    for nm in ('FINDER_PATTERN', 'ALIGNMENT_PATTERN', 'TIMING', 'FORMAT', 'VERSION', 'DATA'):
        lt, dk = getattr(c, 'TYPE_%s_LIGHT' % nm), getattr(c, 'TYPE_%s_DARK' % nm)
        I.ground('C11.constants.dark_is_light_shifted_by_8', dk == lt << 8 and 0 < lt < 256, witness=dict(type=nm, light=lt, dark=dk))
    I.ground('C11.constants.darkmodule_is_dark', c.TYPE_DARKMODULE >> 8 != 0, witness=c.TYPE_DARKMODULE)
    I.ground('C11.constants.separator_and_quiet_zone_are_light', c.TYPE_SEPARATOR >> 8 == 0 and c.TYPE_QUIET_ZONE >> 8 == 0, witness=None)
    vals = [getattr(c, n) for n in dir(c) if n.startswith('TYPE_')]
    I.ground('C11.constants.distinct', len(set(vals)) == len(vals), witness=sorted(vals))


def expected_type(c, v, i, j, cell):
    """ISO type of module (i, j) of version v as a (linear) function of the module value"""
    size = iso.symbol_size(v)
    if not (0 <= i < size and 0 <= j < size):
        return c.TYPE_QUIET_ZONE
    kind, val = layout.function_map(v)[(i, j)]
    if kind == layout.SEPARATOR:
        return c.TYPE_SEPARATOR
    if kind == layout.DARK:
        return c.TYPE_DARKMODULE
    lt = getattr(c, 'TYPE_%s_LIGHT' % KIND_CONST[kind])
    dk = getattr(c, 'TYPE_%s_DARK' % KIND_CONST[kind])
    return lt + (dk - lt) * cell


def _symbol(v):
    size = iso.symbol_size(v)
    fm = layout.function_map(v)
    rows = []
    for i in range(size):
        row = []
        for j in range(size):
            kind, val = fm[(i, j)]
            row.append(val if val is not None else named_int('m_%d_%d' % (i, j), 0, 1))
        rows.append(row)
    return rows


def task_classify(I, v):
    c = C.consts()
    size = iso.symbol_size(v)
    f = I.get_function('segno.utils', 'matrix_iter_verbose')
    f_plain = I.get_function('segno.utils', 'matrix_iter')
    configs = [(1, 1), (1, None)] + ([(2, 0), (3, 2)] if v <= 2 else [])
    finding = kf.active('F-C11-format-light-8-size9')
    for scale, border in configs:
        st = {}

        def thunk(I):
            rows = _symbol(v)
            st['rows'] = rows
            m = tuple(VBytearray(r) for r in rows)
            out = I.iterate(I.call_function(f, (m, (size, size)), dict(scale=scale, border=border)))
            plain = I.iterate(I.call_function(f_plain, (m, (size, size)), dict(scale=scale, border=border)))
            return out, plain
        res = {}
        I.replay_spec = dict(fn='replay_classify', version=v, scale=scale, border=border)
        I.explore(thunk, lambda I, k, val: res.update(kind=k, val=val))
        w = dict(version=iso.version_name(v), scale=scale, border=border)
        I.ground('C11.matrix_iter_verbose.no_exception', res.get('kind') == 'return', witness=dict(w, outcome=repr(res.get('val'))[:200]))
        if res.get('kind') != 'return':
            continue
        out, plain = res['val']
        b = border if border is not None else (2 if v < 1 else 4)
        n = (size + 2 * b) * scale
        I.ground('C11.matrix_iter_verbose.dimensions', len(out) == n and all(len(r) == n for r in out), witness=dict(w, rows=len(out), want=n))
        I.ground('C11.matrix_iter.dimensions', len(plain) == n and all(len(r) == n for r in plain), witness=dict(w, rows=len(plain), want=n))
        if len(out) != n or len(plain) != n:
            continue
        rows = st['rows']
        ok = okp = 0
        for y in range(n):
            i = y // scale - b
            orow, prow = out[y], plain[y]
            for x in range(n):
                j = x // scale - b
                inside = 0 <= i < size and 0 <= j < size
                cell = rows[i][j] if inside else 0
                want = expected_type(c, v, i, j, cell)
                got = orow[x]
                same = (got == want)
                if same is True:
                    ok += 1
                elif finding and v >= 1 and (i, j) == (8, size - 9) and (got == c.TYPE_FORMAT_LIGHT + (c.TYPE_FORMAT_DARK - c.TYPE_FORMAT_LIGHT) * cell) is True:
                    I.ground_pass('C11.matrix_iter_verbose.type_is_ISO_or_pinned_deviation_at_8_size9', 1)
                    rec = I.records.get('kf-probe:F-C11-format-light-8-size9')
                    if rec is None:
                        from pyvc.interp import ObRecord
                        rec = I.records['kf-probe:F-C11-format-light-8-size9'] = ObRecord('kf-probe:F-C11-format-light-8-size9', 'probe')
                    rec.instances += 1
                    rec.refuted += 1
                else:
                    I.ground('C11.matrix_iter_verbose.type_of_module_is_ISO_type', False,
                             witness=dict(w, row=i, col=j, got=repr(got)[:80], want=repr(want)[:80]))
                gp = prow[x]
                if (gp is cell) or ((gp == cell) is True):
                    okp += 1
                else:
                    I.ground('C11.matrix_iter.value_is_module_value_or_light_quiet_zone', False, witness=dict(w, row=i, col=j, got=repr(gp)[:60]))
        I.ground_pass('C11.matrix_iter_verbose.type_of_module_is_ISO_type', ok)
        I.ground_pass('C11.matrix_iter.value_is_module_value_or_light_quiet_zone', okp)


def task_refusal(I):
    size = 21
    for fname in ('matrix_iter', 'matrix_iter_verbose'):
        f = I.get_function('segno.utils', fname)
        m = tuple(VBytearray([0] * size) for _ in range(size))
        for scale, border, ok in ((0, 1, False), (-1, 1, False), (0.5, 1, False), (1, -1, False), (1, 1.5, False),
                                  (1, 0, True), (2.7, 2, True), (1, None, True)):
            res = {}
            I.explore(lambda I: I.iterate(I.call_function(f, (m, (size, size)), dict(scale=scale, border=border))),
                      lambda I, k, v: res.update(kind=k, val=v))
            wit = dict(function=fname, scale=scale, border=border, outcome=res.get('kind'), value=repr(res.get('val'))[:80])
            I.replay_spec = dict(fn='replay_iter_refusal', function=fname, scale=scale, border=border, ok=ok)
            if ok:
                s = int(scale)
                b = 4 if border is None else int(border)
                I.ground('C11.%s.accepts_and_truncates_scale' % fname, res.get('kind') == 'return' and len(res['val']) == (size + 2 * b) * s, witness=wit)
            else:
                I.ground('C11.%s.refuses_with_ValueError' % fname, res.get('kind') == 'raise' and isinstance(res['val'], ValueError), witness=wit)
    I.replay_spec = None


# ------------------------------------------------------------------ colour map: module type -> configured colour (opaque colour values)
COLOUR_OPTION = {'FINDER_PATTERN': 'finder', 'DATA': 'data', 'VERSION': 'version', 'FORMAT': 'format', 'ALIGNMENT_PATTERN': 'alignment', 'TIMING': 'timing'}
ALL_OPTIONS = [p + s_ for p in COLOUR_OPTION.values() for s_ in ('_dark', '_light')] + ['separator', 'dark_module', 'quiet_zone']


class _Colour:
    """opaque colour value: the colour map may only pass it on"""

    def __init__(self, name):
        self.name = name

    def __repr__(self):
        return '<colour %s>' % self.name


def _types_of_version(c, v):
    """module types that occur in a symbol of version v -> (option name, falls back to dark?)"""
    out = {}
    for nm, opt in COLOUR_OPTION.items():
        if nm == 'ALIGNMENT_PATTERN' and v < 2 or nm == 'VERSION' and v < 7:
            continue
        out[getattr(c, 'TYPE_%s_DARK' % nm)] = (opt + '_dark', True)
        out[getattr(c, 'TYPE_%s_LIGHT' % nm)] = (opt + '_light', False)
    out[c.TYPE_SEPARATOR] = ('separator', False)
    out[c.TYPE_QUIET_ZONE] = ('quiet_zone', False)
    if v >= 1:
        out[c.TYPE_DARKMODULE] = ('dark_module', True)
    return out


def task_colormap(I):
    """the real colorful() wrapper and _make_colormap executed with opaque colour values: for every version, the colour of
    every module type that occurs is the value of its own option if given (None = transparent included), else dark / light"""
    c = C.consts()
    col = I.get_function('segno.writers', 'colorful')
    import segno.writers as W
    for nm in ('write_svg', 'write_png', 'write_ppm'):
        f = getattr(W, nm)
        if not (getattr(f, '__wrapped__', None) is not None and f.__code__ is W.colorful(None, None)(lambda *a, **k: None).__code__):
            # the contract below is about colorful(); a serialiser that obtains its colour map differently is outside it: undecided, not a violation
            from pyvc.sym import Unsupported
            raise Unsupported('contract does not attach: %s is not wrapped by writers.colorful' % nm)
        I.ground_pass('C11.colormap.cover.serialiser_is_wrapped_by_colorful', 1, kind='cover')
    rp = dict(fn='replay_colourful_map')
    for v in iso.ALL_VERSIONS:
        size = iso.symbol_size(v)
        types = _types_of_version(c, v)
        cases = [{}, {o: _Colour(o) for o in ALL_OPTIONS}] + [{o: _Colour(o)} for o in ALL_OPTIONS] + [{o: None} for o in ALL_OPTIONS]
        if v not in (iso.M1, 1, 2, 7, 40):
            cases = cases[:2] + cases[2 + (v % 17):][:3]
        for opts in cases:
            got = {}

            def stub(matrix, matrix_size, out, colormap, **kw):
                got.update(cm=colormap, kw=kw, pos=(matrix, matrix_size, out))
                return 'RESULT'
            dark, light = _Colour('dark'), _Colour('light')

            def thunk(I):
                deco = I.call_function(col, (dark, light), {})
                w = I.call_function(deco, (stub,), {})
                return I.call_function(w, ('MATRIX', (size, size), 'OUT'), dict(opts, scale=3, border=1))
            res = {}
            I.explore(thunk, lambda I, k, val: res.update(kind=k, val=val))
            cm = got.get('cm') or {}
            wit = dict(version=iso.version_name(v), options=sorted(opts))
            ok = res.get('kind') == 'return' and res.get('val') == 'RESULT' and got.get('kw') == dict(scale=3, border=1) and got.get('pos') == ('MATRIX', (size, size), 'OUT')
            I.ground('C11.colormap.wrapper_forwards_matrix_stream_and_other_options_unchanged', ok, witness=wit, replay=rp)
            bad = []
            for t, (opt, is_dark) in types.items():
                want = opts[opt] if opt in opts else (dark if is_dark else light)
                if t not in cm or cm[t] is not want:
                    bad.append((t, opt, repr(cm.get(t, 'missing'))))
            I.ground('C11.colormap.type_colour_is_its_own_option_else_dark_or_light', not bad, witness=dict(wit, wrong=bad[:3]), replay=rp)


# ------------------------------------------------------------------ iteration kernel: ANY size, scale, border (loop contracts, ghost row counter)
def task_iter_kernel(I, fname):
    """matrix_iter / matrix_iter_verbose for a matrix of symbolic width and height, symbolic integer scale >= 1 and border >= 0 (or None):
    the rows come in order, row number q * scale + t (0 <= t < scale) depicts module row q - border, has (width + 2 border) * scale
    entries, and entry p * scale + t' depicts module column p - border: the value is the module (matrix_iter: light outside the symbol)
    resp. get_bit(row, column) (matrix_iter_verbose; get_bit is summarised by an uninterpreted function, its classification is proved
    per version by task_classify); the number of rows is (height + 2 border) * scale."""
    import z3
    from pyvc.sym import s_and, s_or, s_implies, s_ite, _z, fresh_name
    from pyvc.values import SMatrix, SLazySeq
    from pyvc.interp import LoopSpec
    verbose = fname == 'matrix_iter_verbose'
    f = I.get_function('segno.utils', fname)
    K1, K2 = ('segno.utils:' + fname, 1), ('segno.utils:' + fname, 2)
    st = {}
    G = z3.Function('get_bit', z3.IntSort(), z3.IntSort(), z3.IntSort())

    def inv_outer(ctx):
        return [('rows_yielded_so_far', st['y'] == ctx.k * st['scale'])]

    def havoc_outer(ctx):
        st['y'] = ctx.interp.fresh_int('ghost_rows', 0, None)

    def exit_outer(ctx):
        I.oblige('C11.%s.number_of_rows_is_height_plus_two_borders_times_scale' % fname, st['y'] == (st['h'] + 2 * st['b']) * st['scale'])
        st['exits'] = st.get('exits', 0) + 1

    def inv_inner(ctx):
        k1 = ctx.interp.loop_k[K1]
        return [('rows_yielded_so_far', st['y'] == k1 * st['scale'] + ctx.k)]

    def havoc_inner(ctx):
        st['y'] = ctx.interp.fresh_int('ghost_rows', 0, None)
    I.loopspecs[K1] = LoopSpec(inv_outer, havoc_outer, on_exit=exit_outer)
    I.loopspecs[K2] = LoopSpec(inv_inner, havoc_inner)

    def on_yield(I, row):
        k1, k2 = I.loop_k[K1], I.loop_k[K2]
        w, h, b, sc, mat = st['w'], st['h'], st['b'], st['scale'], st['mat']
        i = k1 - b
        I.oblige('C11.%s.rows_in_order_each_module_row_scale_times' % fname, s_and(st['y'] == k1 * sc + k2, k2 >= 0, k2 < sc, k1 >= 0, k1 < h + 2 * b))
        ok = isinstance(row, SLazySeq) and row.kind == 'tuple' and hasattr(row, 'block_elem')
        I.ground('C11.%s.row_is_a_tuple_of_repeated_modules' % fname, ok, witness=repr(type(row)))
        if ok:
            I.oblige('C11.%s.row_length_is_width_plus_two_borders_times_scale' % fname, s_and(row.block_count == w + 2 * b, row.block_len == sc))
            q = I.fresh_int('pixel_block', 0, None)
            I.assume(q < w + 2 * b)
            j = q - b
            got = row.block_elem(q)
            if verbose:
                want = SInt(G(_z(i), _z(j)))
            else:
                inside = s_and(i >= 0, i < h, j >= 0, j < w)
                want = s_ite(inside, mat.cell(i, j), 0)
            I.oblige('C11.%s.pixel_depicts_module_row_minus_border_column_minus_border' % fname, got == want)
        st['y'] = st['y'] + 1
    I.yield_hook = on_yield
    if verbose:
        def s_get_bit(I, clo, args, kwargs):
            bd = I.bind_args(clo, args, kwargs)
            return SInt(G(_z(bd['i']), _z(bd['j'])))
        I.summaries['segno.utils:matrix_iter_verbose.<locals>.get_bit'] = s_get_bit
        I.summaries['segno.encoder:make_matrix'] = lambda I, clo, args, kwargs: 'ALIGNMENT-MATRIX'
        I.summaries['segno.encoder:add_alignment_patterns'] = lambda I, clo, args, kwargs: None
    for border_none in (False, True):
        def thunk(I):
            st.clear()
            w = I.fresh_int('width', 1, None)
            h = w if border_none else I.fresh_int('height', 1, None)      # the default border is defined for square symbols
            sc = I.fresh_int('scale', None, None)
            b = None if border_none else I.fresh_int('border', None, None)
            mat = SMatrix('matrix', h, 0, 1)
            mat.width = w
            st.update(w=w, h=h, scale=sc, mat=mat, y=0)
            I.inputs.update(width=w, height=h, scale=sc)
            if b is not None:
                I.inputs['border'] = b
            st['b_arg'] = b
            # the effective border: the argument, or the default for the symbol kind (4 / 2)
            st['b'] = b if b is not None else s_ite(w < 21, 2, 4)
            if b is None:
                I.assume(s_or(w <= 17, w >= 21))        # sizes of symbols: Micro 11..17, QR 21..177 (the default border is defined for those)
            return I.iterate(I.call_function(f, (mat, (w, h)), dict(scale=sc, border=b)))

        def post(I, kind, val):
            sc, b = st['scale'], st['b_arg']
            if kind == 'raise':
                bad = (sc <= 0) if b is None else s_or(sc <= 0, b < 0)
                I.ground('C11.%s.only_ValueError_is_raised' % fname, isinstance(val, ValueError), witness=repr(val))
                I.oblige('C11.%s.refuses_only_scale_below_1_or_negative_border' % fname, bad)
            else:
                I.oblige('C11.%s.accepts_only_scale_at_least_1_and_border_at_least_0' % fname, (sc >= 1) if b is None else s_and(sc >= 1, b >= 0))
        I.replay_spec = dict(fn='replay_iter_kernel', function=fname)
        I.explore(thunk, post)
        I.ground('C11.%s.cover.loop_exit_reached' % fname, st.get('exits', 0) > 0, kind='cover')
    I.yield_hook = None
    for k in ('segno.utils:matrix_iter_verbose.<locals>.get_bit', 'segno.encoder:make_matrix', 'segno.encoder:add_alignment_patterns'):
        I.summaries.pop(k, None)
    del I.loopspecs[K1], I.loopspecs[K2]
